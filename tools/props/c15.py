"""C15 — sampled bitstrings follow the state's measurement distribution (DESIGN.md C15).

Proof: coq/Properties/C15.v (readout flip law and counts, error gate table, batch loop, chain rule of the sequential MPS
sampler under the right-orthonormality premise, index -> bitstring).  random.random() / torch.multinomial are oracles.
Tie (exact): the Gallina model coq/Model/Sampling.v against the real code with SCRIPTED oracles: the name `random` of
emu_base.utils and the name `torch` of emu_mps.mps / emu_sv.state_vector / emu_sv.density_matrix_state are rebound to
proxies that replay prescribed draws and record the weight rows the code presents to multinomial.
Statistical correspondence: the unmodified samplers (seeded from ctx.rng) against exact probabilities on
integer-amplitude states, exact binomial tests per outcome string, Bonferroni over all tests of the run at family-wise
error 1e-6; an outcome of probability 0 is a definite violation.
"""
import itertools
import json
import math
from collections import Counter
from fractions import Fraction

from vlib import common
from props.c11 import raws, natlist, as3, rand_gi_chain, dense as dense_chain

HEADER = """From Coq Require Import ZArith List Bool QArith.
Import ListNotations.
From EV Require Import Model.TransferMat Model.MPSAlg Model.SvState Model.Sampling.
Open Scope Z_scope."""

FWER = 1e-6


def _q(x) -> str:
    f = Fraction(x)
    return f"({f.numerator} # {f.denominator})%Q"


def _ql(xs):
    return "[" + "; ".join(_q(x) for x in xs) + "]"


def _n(x):
    return f"{int(x)}%nat"


def _bits(s):
    return "[" + "; ".join(_n(ch) for ch in s) + "]"


def _natl(xs):
    return "[" + "; ".join(_n(x) for x in xs) + "]"


def _eig(d):
    return ("r", "g") if d == 2 else ("g", "r", "x")


# ------------------------------------------------------------------------------------------------
# scripted oracles
class _ScriptedRandom:
    def __init__(self, values):
        self.values = list(values)
        self.used = 0

    def random(self):
        v = self.values[self.used]
        self.used += 1
        return v


class _Sq:
    def __init__(self, v):
        self.v = v

    def __pow__(self, p):
        assert p == 2
        return self.v


class _Lin:
    def __init__(self, real):
        self._real = real

    def vector_norm(self, x, dim=None):
        sq = x.real ** 2 + x.imag ** 2
        return _Sq(sq.sum(dim=dim) if dim is not None else sq.sum())

    def __getattr__(self, n):
        return getattr(self._real.linalg, n)


class _TorchProxy:
    """torch with a scripted multinomial (records the weight rows) and, optionally, exact squared norms"""

    def __init__(self, real, chooser, exact_norm):
        self._real = real
        self._chooser = chooser
        self.rows = []
        if exact_norm:
            self.linalg = _Lin(real)

    def multinomial(self, probs, num_samples, replacement=False):
        self.rows.append(probs.clone())
        return self._chooser(len(self.rows) - 1, probs, num_samples)

    def __getattr__(self, n):
        return getattr(self._real, n)


class rebind:
    def __init__(self, module, name, value):
        self.module, self.name, self.value = module, name, value

    def __enter__(self):
        self.saved = getattr(self.module, self.name)
        setattr(self.module, self.name, self.value)
        return self.value

    def __exit__(self, *a):
        setattr(self.module, self.name, self.saved)


# ------------------------------------------------------------------------------------------------
# exact case kinds
def gen_readout_case(rng):
    L = rng.randint(1, 6)
    n_items = rng.randint(1, 4)
    items, seen = [], set()
    for _ in range(n_items):
        s = "".join(rng.choice("01") for _ in range(L))
        if s in seen:
            continue
        seen.add(s)
        items.append([s, rng.randint(0, 6)])

    def prob():
        k = rng.random()
        if k < 0.15:
            return 0.0
        if k < 0.3:
            return 1.0
        if k < 0.7:
            return rng.randint(0, 16) / 16
        return rng.random()

    pfp, pfn = prob(), prob()
    need = sum(c * len(s) for s, c in items)
    rs = []
    for _ in range(need + rng.randint(0, 3)):
        k = rng.random()
        if k < 0.2:
            rs.append(pfp if pfp < 1.0 else 0.0)  # boundary: r == p must NOT flip (strict <)
        elif k < 0.4:
            rs.append(pfn if pfn < 1.0 else 0.0)
        elif k < 0.7:
            rs.append(rng.randint(0, 15) / 16)
        else:
            rs.append(rng.random())
    return {"kind": "readout", "items": items, "pfp": pfp, "pfn": pfn, "rs": rs}


def impl_readout(c):
    import emu_base.utils as eu
    bag = Counter()
    for s, n in c["items"]:
        bag[s] = n  # Counter keeps zero counts inserted this way; they produce no shots
    sr = _ScriptedRandom(c["rs"])
    with rebind(eu, "random", sr):
        out = eu.apply_measurement_errors(bag, p_false_pos=c["pfp"], p_false_neg=c["pfn"])
        singles = [eu.readout_with_error(ch, p_false_pos=c["pfp"], p_false_neg=c["pfn"]) for ch in "01"[: max(0, len(c["rs"]) - sr.used)]]
    return {"out": dict(out), "used": sr.used, "singles": singles}


def expr_readout(c):
    items = "[" + "; ".join(f"({_bits(s)}, {_n(n)})" for s, n in c["items"]) + "]"
    return (f"match apply_measurement_errors {_q(c['pfp'])} {_q(c['pfn'])} {items} {_ql(c['rs'])} with "
            f"Some (out, rest) => Some (out, length rest) | None => None end")


def check_readout(c, r, v):
    """v = parsed model value Some (strings, rest)"""
    if v is None or v[0] != "Some":
        return "model ran out of stream"
    strings, rest = v[1]
    bag = Counter("".join(str(x) for x in s) for s in strings)
    if dict(bag) != {k: n for k, n in r["out"].items() if n}:
        return f"model {dict(bag)} real {r['out']}"
    if len(c["rs"]) - rest != r["used"] - len(r["singles"]):
        return f"model consumed {len(c['rs']) - rest} draws, real {r['used'] - len(r['singles'])}"
    return None


def oracle_readout(ctx, c, r):
    total_in = sum(n for _, n in c["items"])
    total_out = sum(r["out"].values())
    L = len(c["items"][0][0])
    if total_in != total_out or any(len(s) != L for s in r["out"]):
        ctx.violation("apply_measurement_errors changed the total count or a string length",
                      {"case": c, "finding_key": "errors-count"})
    # independent re-computation of the definition with the same stream
    it = iter(c["rs"])
    want = Counter()
    for s, n in c["items"]:
        for _ in range(n):
            t = ""
            for ch in s:
                x = next(it)
                t += ("1" if x < c["pfp"] else "0") if ch == "0" else ("0" if x < c["pfn"] else "1")
            want[t] += 1
    if dict(want) != {k: n for k, n in r["out"].items() if n}:
        ctx.violation("readout errors differ from the flip law (0->1 iff r < p_false_pos, 1->0 iff r < p_false_neg)",
                      {"case": c, "finding_key": "readout-flip-law"})


def gen_mps_case(rng):
    d = rng.choice([2, 2, 3])
    n = rng.randint(2, 6 if d == 2 else 4)
    fs = rand_gi_chain(rng, n, d, rng.randint(1, 3))
    shots = rng.choice([0, 1, 5, 31, 32, 32, 33, 63, 64, 64, 65, 70, 96, 128])
    distinct = [[rng.randrange(d) for _ in range(n)] for _ in range(rng.randint(1, 4))]
    return {"kind": "mps_scripted", "d": d, "n": n, "shots": shots, "strings": distinct,
            "factors": [[list(t.shape), [[z.real, z.imag] for z in t.reshape(-1).tolist()]] for t in fs]}


def _factors_of(c):
    import torch
    return [torch.tensor([complex(a, b) for a, b in data], dtype=torch.complex128).reshape(shape)
            for shape, data in c["factors"]]


def impl_mps_scripted(c):
    import torch
    import emu_mps.mps as mm
    from emu_mps.mps import MPS

    fs = _factors_of(c)
    n, strings = c["n"], c["strings"]
    st = MPS([t.clone() for t in fs], orthogonality_center=0, num_gpus_to_use=0, eigenstates=_eig(c["d"]))
    batch_sizes = []

    def chooser(call, probs, num_samples):
        batch, qubit = divmod(call, n)
        if qubit == 0:
            batch_sizes.append(probs.shape[0])
        base = 32 * batch
        return torch.tensor([strings[(base + i) % len(strings)][qubit] for i in range(probs.shape[0])],
                            dtype=torch.int64).reshape(probs.shape[0], 1)

    proxy = _TorchProxy(torch, chooser, exact_norm=True)
    with rebind(mm, "torch", proxy):
        try:
            out = st.sample(num_shots=c["shots"])
        except Exception as ex:  # noqa: BLE001 - sampling a valid state must not raise
            return {"out": {}, "batch_sizes": batch_sizes, "rows": {}, "consistent": True,
                    "raised": f"{type(ex).__name__}: {str(ex)[:120]}"}
    # rows[call][i] is the weight row of shot 32*batch+i at site `qubit`
    per_string = {}
    consistent = True
    for call, rows in enumerate(proxy.rows):
        batch, qubit = divmod(call, n)
        for i in range(rows.shape[0]):
            k = (32 * batch + i) % len(strings)
            row = [float(x) for x in rows[i].tolist()]
            prev = per_string.setdefault(k, {}).setdefault(qubit, row)
            consistent &= prev == row
    return {"out": dict(out), "batch_sizes": batch_sizes, "rows": per_string, "consistent": consistent}


def exprs_mps_scripted(c):
    fs = _factors_of(c)
    ch = f"(map of_raw {raws(fs)})"
    es = [f"weight_rows gi_ops [(1,0)%Z] {ch} {_natl(b)}" for b in c["strings"]]
    es.append(f"batches {_n(c['shots'])} 32%nat 0%nat {_n(c['shots'])}")
    es.append("[" + "; ".join(f"print_outcome {_natl(b)}" for b in c["strings"]) + "]")
    return es


def check_mps_scripted(c, r, vals):
    strings = c["strings"]
    for k, b in enumerate(strings):
        if k not in r["rows"]:
            continue
        model_rows = [[int(x[0]) for x in row] for row in vals[k]]
        real_rows = [r["rows"][k][q] for q in range(c["n"])]
        if any(any(x[1] != 0 for x in row) for row in vals[k]):
            return "model weight with non-zero imaginary part"
        if [[float(x) for x in row] for row in model_rows] != real_rows:
            return f"weight rows along {b}: model {model_rows} real {real_rows}"
    vb = vals[len(strings)]
    model_batches = list(vb[1]) if isinstance(vb, tuple) and vb[0] == "LOk" else None
    if model_batches != r["batch_sizes"]:
        return f"batches: model {vb} real {r['batch_sizes']}"
    printed = ["".join(str(x) for x in p) for p in vals[len(strings) + 1]]
    want = Counter(printed[i % len(strings)] for i in range(c["shots"]))
    if dict(want) != r["out"]:
        return f"printed counts: model {dict(want)} real {r['out']}"
    if not r["consistent"]:
        return "the same outcome prefix was shown different weight rows"
    return None


def oracle_mps_scripted(ctx, c, r):
    if r.get("raised"):
        ctx.violation(f"MPS.sample(num_shots={c['shots']}) raised {r['raised']}", {"case": c, "finding_key": "sample-raises"})
        return
    if sum(r["out"].values()) != c["shots"] or any(len(s) != c["n"] for s in r["out"]):
        ctx.violation(f"MPS.sample returned {sum(r['out'].values())} bitstrings for num_shots={c['shots']}",
                      {"case": c, "finding_key": "shot-count"})
    if sum(r["batch_sizes"]) != c["shots"] or any(not (1 <= b <= 32) for b in r["batch_sizes"]):
        ctx.violation("batch sizes do not add up to num_shots", {"case": c, "finding_key": "shot-count"})
    # chain rule on the real rows: along each scripted string the chosen weight of the last site is |amp|^2
    D = dense_chain(_factors_of(c))
    for k, b in enumerate(c["strings"]):
        if k in r["rows"]:
            w_last = r["rows"][k][c["n"] - 1][b[-1]]
            z = complex(D[tuple(b)])
            a2 = z.real * z.real + z.imag * z.imag  # exact on Gaussian integers
            if w_last != a2:
                ctx.violation(f"last conditional weight along {b} is {w_last}, |amp|^2 = {a2}",
                              {"case": c, "finding_key": "chain-rule"})


def gen_sv_case(rng, dm):
    N = rng.randint(1, 5 if not dm else 3)
    D = 2 ** N
    if dm:
        diag = [rng.randint(-3, 6) for _ in range(D)]
        rho = [[complex(rng.randint(-2, 2), rng.randint(-2, 2)) for _ in range(D)] for _ in range(D)]
        for k in range(D):
            rho[k][k] = complex(diag[k], 0)
        data = [[z.real, z.imag] for row in rho for z in row]
    else:
        data = [[rng.randint(-3, 3), rng.randint(-3, 3)] for _ in range(D)]
    shots = rng.choice([1, 3, 10])
    return {"kind": "dm_scripted" if dm else "sv_scripted", "N": N, "data": data, "shots": shots,
            "outcomes": [rng.randrange(D) for _ in range(shots)]}


def impl_sv_scripted(c):
    import torch
    import emu_sv.state_vector as sv
    import emu_sv.density_matrix_state as dmm

    D = 2 ** c["N"]
    t = torch.tensor([complex(a, b) for a, b in c["data"]], dtype=torch.complex128)

    def chooser(call, probs, num_samples):
        return torch.tensor(c["outcomes"][:num_samples])

    proxy = _TorchProxy(torch, chooser, exact_norm=False)
    if c["kind"] == "sv_scripted":
        st = sv.StateVector(t, gpu=False)
        with rebind(sv, "torch", proxy):
            out = st.sample(num_shots=c["shots"])
    else:
        st = dmm.DensityMatrix(t.reshape(D, D), gpu=False)
        with rebind(dmm, "torch", proxy):
            out = st.sample(num_shots=c["shots"])
    return {"out": dict(out), "weights": [float(x) for x in proxy.rows[0].tolist()]}


def exprs_sv_scripted(c):
    data = "[" + "; ".join(f"({int(a)},{int(b)})%Z" for a, b in c["data"]) + "]"
    w = f"sv_weights {data}" if c["kind"] == "sv_scripted" else f"dm_weights {_n(2 ** c['N'])} {data}"
    return [w, "[" + "; ".join(f"index_to_bits {_n(c['N'])} {_n(k)}" for k in c["outcomes"]) + "]"]


def check_sv_scripted(c, r, vals):
    # torch.abs(z) ** 2 takes a square root and squares it again: tolerance 1e-9 for the state vector, exact for rho
    tol = 1e-9 if c["kind"] == "sv_scripted" else 0.0
    if len(vals[0]) != len(r["weights"]) or any(abs(float(m) - w) > tol * max(1.0, abs(w)) for m, w in zip(vals[0], r["weights"])):
        return f"weights: model {vals[0]} real {r['weights']}"
    strs = ["".join(str(x) for x in v[1]) if isinstance(v, tuple) else None for v in vals[1]]
    if dict(Counter(strs)) != r["out"]:
        return f"strings: model {strs} real {r['out']}"
    return None


TOTALS = [1, 31, 32, 33, 63, 64, 65, 96, 1024, 2048]


def totals_stage(ctx, hist):
    """the REAL samplers (unscripted): total count and string length for shot counts around the batch size, every
    representation, with and without readout errors"""
    import torch
    from emu_mps.mps import MPS
    from emu_sv.state_vector import StateVector
    from emu_sv.density_matrix_state import DensityMatrix

    torch.manual_seed(ctx.rng.getrandbits(40))
    n = 3
    v = torch.tensor([1, 1j, 0, 2, -1, 0, 1, 1], dtype=torch.complex128)
    states = {
        "mps2": lambda: MPS([torch.tensor([[[1.0, 2.0], [1j, 0.0]]], dtype=torch.complex128),
                             torch.tensor([[[1.0, 0.0], [0.0, 1.0]], [[0.0, 1.0], [1.0, 1j]]], dtype=torch.complex128),
                             torch.tensor([[[1.0], [1.0]], [[2.0], [-1.0]]], dtype=torch.complex128)],
                            num_gpus_to_use=0, eigenstates=("r", "g")),
        "mps3": lambda: MPS([torch.tensor([[[1.0], [1.0], [1.0]]], dtype=torch.complex128) for _ in range(n)],
                            num_gpus_to_use=0, eigenstates=("g", "r", "x")),
        "sv": lambda: StateVector(v.clone(), gpu=False),
        "dm": lambda: DensityMatrix(torch.outer(v, v.conj()), gpu=False),
    }
    for name, make in states.items():
        for errs in (False, True):
            kw = {}
            if errs:
                kw = dict(p_false_neg=0.25) if name == "mps3" else dict(p_false_pos=0.125, p_false_neg=0.25)
            for shots in TOTALS:
                c = {"kind": "totals", "state": name, "shots": shots, "errors": errs}
                try:
                    out = make().sample(num_shots=shots, **kw)
                    total, lens = sum(out.values()), {len(s) for s in out}
                    if total != shots or (lens - {n}):
                        ctx.violation(f"{name}.sample(num_shots={shots}{', readout errors' if errs else ''}) returned "
                                      f"{total} bitstrings (lengths {sorted(lens)})", {"case": c, "finding_key": "shot-count"})
                except Exception as ex:  # noqa: BLE001
                    ctx.violation(f"{name}.sample(num_shots={shots}) raised {type(ex).__name__}: {str(ex)[:120]}",
                                  {"case": c, "finding_key": "sample-raises"})
                ctx.count_case(c, True)
                hist["totals/" + name] = hist.get("totals/" + name, 0) + 1


def replay_totals(ctx, c):
    saved = TOTALS[:]
    TOTALS[:] = [c["shots"]]
    try:
        totals_stage(ctx, {})
    finally:
        TOTALS[:] = saved


def gate_cases():
    out = []
    for d in (2, 3):
        for pfn in (0.0, 0.25):
            for pfp in (0.0, 0.5):
                out.append({"kind": "gate_mps", "d": d, "pfn": pfn, "pfp": pfp})
    for kind in ("gate_sv", "gate_dm"):
        for pfn in (0.0, 0.25):
            for pfp in (0.0, 0.5):
                out.append({"kind": kind, "pfn": pfn, "pfp": pfp})
    return out


def impl_gate(c):
    import torch
    calls = []

    def recorder(bitstrings, *, p_false_pos, p_false_neg):
        calls.append((p_false_pos, p_false_neg))
        return bitstrings

    raised = False
    if c["kind"] == "gate_mps":
        import emu_mps.mps as mm
        st = mm.MPS.make(3, eigenstates=_eig(c["d"]), num_gpus_to_use=0)
        with rebind(mm, "apply_measurement_errors", recorder):
            try:
                st.sample(num_shots=3, p_false_pos=c["pfp"], p_false_neg=c["pfn"])
            except NotImplementedError:
                raised = True
    elif c["kind"] == "gate_sv":
        import emu_sv.state_vector as sv
        st = sv.StateVector.make(2, gpu=False)
        with rebind(sv, "apply_measurement_errors", recorder):
            st.sample(num_shots=3, p_false_pos=c["pfp"], p_false_neg=c["pfn"])
    else:
        import emu_sv.density_matrix_state as dmm
        st = dmm.DensityMatrix.make(2, gpu=False)
        with rebind(dmm, "apply_measurement_errors", recorder):
            st.sample(num_shots=3, p_false_pos=c["pfp"], p_false_neg=c["pfn"])
    ok_args = all(a == (c["pfp"], c["pfn"]) for a in calls)
    return {"applied": len(calls) == 1, "raised": raised, "args_ok": ok_args and len(calls) <= 1}


def expr_gate(c):
    b = lambda x: "true" if x > 0 else "false"  # noqa: E731
    if c["kind"] == "gate_mps":
        return f"(gate_applies {b(c['pfn'])} {b(c['pfp'])} {_n(c['d'])}, gate_raises {b(c['pfp'])} {_n(c['d'])})"
    return f"(gate_sv {b(c['pfn'])} {b(c['pfp'])}, false)"


# ------------------------------------------------------------------------------------------------
# statistical correspondence
def _confusion(p, pfp, pfn, N):
    """distribution after independent per-bit readout flips (exact floats): dict index -> prob"""
    out = [0.0] * (2 ** N)
    for k, pk in enumerate(p):
        if pk == 0:
            continue
        per_bit = []
        for q in range(N):
            bit = (k >> (N - 1 - q)) & 1
            per_bit.append((1 - pfp, pfp) if bit == 0 else (pfn, 1 - pfn))
        for j in range(2 ** N):
            w = pk
            for q in range(N):
                w *= per_bit[q][(j >> (N - 1 - q)) & 1]
                if w == 0:
                    break
            out[j] += w
    return out


def gen_stat_case(rng, kind, thorough):
    shots = rng.choice([200, 1000, 5000] + ([20000] if thorough else [2000]))
    errs = rng.random() < 0.4
    c = {"kind": kind, "shots": shots, "seed": rng.getrandbits(40),
         "pfp": rng.choice([0.05, 0.2, 0.5, 1.0, 0.0]) if errs else 0.0,
         "pfn": rng.choice([0.1, 0.3, 0.0, 1.0]) if errs else 0.0}
    if kind == "stat_mps":
        d = rng.choice([2, 2, 3])
        n = rng.randint(2, 8 if d == 2 else 5)
        while True:  # the zero state has no measurement distribution
            fs = rand_gi_chain(rng, n, d, rng.randint(1, 3))
            if float(dense_chain(fs).abs().sum()) > 0:
                break
        c.update(d=d, n=n, factors=[[list(t.shape), [[z.real, z.imag] for z in t.reshape(-1).tolist()]] for t in fs],
                 center=rng.choice([None, 0, n - 1]))
        if d == 3:
            c["pfp"] = 0.0
    else:
        N = rng.randint(2, 8 if kind == "stat_sv" else 5)
        c["N"] = N
        c["amps"] = [[rng.randint(-3, 3), rng.randint(-3, 3)] if rng.random() < 0.7 else [0, 0] for _ in range(2 ** N)]
        if not any(a or b for a, b in c["amps"]):
            c["amps"][rng.randrange(2 ** N)] = [1, 0]
        if kind == "stat_dm":
            c["mix"] = [[rng.randint(-2, 2), rng.randint(-2, 2)] for _ in range(2 ** N)]
    return c


def run_stat(c):
    """returns (counts Counter over strings, exact probability dict string -> p)"""
    import random as pyrandom
    import torch

    torch.manual_seed(c["seed"])
    state = pyrandom.getstate()
    pyrandom.seed(c["seed"] ^ 0x5EED)
    try:
        if c["kind"] == "stat_mps":
            from emu_mps.mps import MPS
            fs = _factors_of(c)
            D = dense_chain(fs)
            st = MPS([t.clone() for t in fs], num_gpus_to_use=0, eigenstates=_eig(c["d"]))
            if c["center"] is not None:
                st.orthogonalize(c["center"])
            p_lvl = (D.abs() ** 2).double()
            p_lvl = p_lvl / p_lvl.sum()
            n, d = c["n"], c["d"]
            p = [0.0] * (2 ** n)
            for b in itertools.product(range(d), repeat=n):
                k = 0
                for x in b:
                    k = 2 * k + (1 if x == 1 else 0)  # level 2 (leakage) is printed as '0'
                p[k] += float(p_lvl[b])
            N = n
            out = st.sample(num_shots=c["shots"], p_false_pos=c["pfp"], p_false_neg=c["pfn"])
        else:
            from emu_sv.state_vector import StateVector
            from emu_sv.density_matrix_state import DensityMatrix
            N = c["N"]
            v = torch.tensor([complex(a, b) for a, b in c["amps"]], dtype=torch.complex128)
            if c["kind"] == "stat_sv":
                w = (v.abs() ** 2).double()
                st = StateVector(v.clone(), gpu=False)
            else:
                u = torch.tensor([complex(a, b) for a, b in c["mix"]], dtype=torch.complex128)
                rho = torch.outer(v, v.conj()) + torch.outer(u, u.conj())
                w = rho.diagonal().real.double()
                st = DensityMatrix(rho, gpu=False)
            p = [float(x) for x in (w / w.sum()).tolist()]
            out = st.sample(num_shots=c["shots"], p_false_pos=c["pfp"], p_false_neg=c["pfn"])
    finally:
        pyrandom.setstate(state)
    if c["pfp"] > 0 or c["pfn"] > 0:
        p = _confusion(p, c["pfp"], c["pfn"], N)
    probs = {format(k, f"0{N}b"): pk for k, pk in enumerate(p)}
    return out, probs


def stat_tests(c, out, probs):
    """list of (label, count, shots, p) exact binomial tests; plus definite failures"""
    definite = []
    shots = c["shots"]
    if sum(out.values()) != shots:
        definite.append(f"{sum(out.values())} bitstrings returned for num_shots={shots}")
    tests = []
    for s, n in out.items():
        if s not in probs:
            definite.append(f"malformed bitstring {s!r}")
        elif probs[s] <= 1e-300 and n > 0:
            definite.append(f"outcome {s} has probability 0 but was sampled {n} times")
    for s, pk in probs.items():
        if pk > 1e-300:
            tests.append((s, out.get(s, 0), shots, min(1.0, pk)))
    # marginals per atom (detect bit-order / polarity errors with high power)
    N = len(next(iter(probs)))
    for q in range(N):
        pq = sum(pk for s, pk in probs.items() if s[q] == "1")
        nq = sum(n for s, n in out.items() if len(s) == N and s[q] == "1")
        tests.append((f"atom{q}", nq, shots, min(1.0, max(0.0, pq))))
    return tests, definite


def corpus_cases():
    p = common.VERIF / "corpus" / "C15.json"
    return json.loads(p.read_text()) if p.exists() else []


# ------------------------------------------------------------------------------------------------
def run(ctx):
    from vlib.coqparse import parse

    rc, out = common.coq_make(["Model/Sampling.vo"])
    ctx.obligation("build:Model/Sampling.vo", rc == 0, out, kind="build")
    model_ok = rc == 0
    common.standard_proof_stage(ctx, "C15", ["Properties/C15.vo"])

    rng, th = ctx.rng, ctx.thorough()
    hist = {}

    def h(k):
        hist[k] = hist.get(k, 0) + 1

    # ---- exact, scripted oracles ---------------------------------------------------------------
    ev = common.CoqEval("C15", HEADER)
    pending = []
    cases = [c for c in corpus_cases() if not c["kind"].startswith("stat")]
    cases += [gen_readout_case(rng) for _ in range(ctx.n(60, 600))]
    cases += [gen_mps_case(rng) for _ in range(ctx.n(16, 150))]
    cases += [gen_sv_case(rng, dm) for dm in (False, True) for _ in range(ctx.n(10, 80))]
    cases += gate_cases()
    for c in cases:
        k = c["kind"]
        if k == "readout":
            r = impl_readout(c)
            oracle_readout(ctx, c, r)
            es = [expr_readout(c)]
            chk = lambda vals, c=c, r=r: check_readout(c, r, vals[0])  # noqa: E731
            nontrivial = sum(n for _, n in c["items"]) > 0 and (c["pfp"] > 0 or c["pfn"] > 0)
        elif k == "mps_scripted":
            r = impl_mps_scripted(c)
            oracle_mps_scripted(ctx, c, r)
            es = exprs_mps_scripted(c)
            chk = lambda vals, c=c, r=r: check_mps_scripted(c, r, vals)  # noqa: E731
            nontrivial = c["shots"] > 0
        elif k in ("sv_scripted", "dm_scripted"):
            r = impl_sv_scripted(c)
            es = exprs_sv_scripted(c)
            chk = lambda vals, c=c, r=r: check_sv_scripted(c, r, vals)  # noqa: E731
            nontrivial = c["N"] >= 2
        else:
            r = impl_gate(c)
            es = [expr_gate(c)]
            chk = lambda vals, c=c, r=r: (None if (list(vals[0]) == [r["applied"], r["raised"]] and r["args_ok"])  # noqa: E731
                                          else f"gate: model {vals[0]} real {r}")
            nontrivial = True
            if k == "gate_mps" and c["d"] == 3 and c["pfn"] > 0 and c["pfp"] == 0:
                ctx.notes.append("observation: MPS.sample applies false-negative errors for qutrit states because "
                                 "`p_false_neg > 0 or p_false_pos > 0 and self.dim == 2` parses as `a or (b and c)`; "
                                 "the resulting distribution (1 -> 0 at rate p_false_neg, leaked level printed '0') is "
                                 "the intended one, so this is not a violation") if hasattr(ctx, "notes") else None
        h(k + (f"/d={c['d']}" if "d" in c else "") + (f"/shots={c['shots']}" if k == "mps_scripted" else ""))
        ctx.count_case({kk: vv for kk, vv in c.items() if kk not in ("factors", "rs", "data")} |
                       {"sig": str(c.get("factors", c.get("rs", c.get("data"))))[:200]}, nontrivial)
        if model_ok:
            pending.append((c, [ev.add(e) for e in es], chk))

    corr_ok, detail = model_ok, "" if model_ok else "model does not build"
    if model_ok:
        try:
            outs = ev.run(shard=40, jobs=12)
            for c, idxs, chk in pending:
                msg = chk([parse(outs[i]) for i in idxs])
                if msg and corr_ok:
                    corr_ok = False
                    detail = f"{c['kind']}: {msg[:600]}; case={json.dumps(c)[:700]}"
                    ctx.extra["first_disagreement"] = {"case": c, "what": msg[:2000]}
        except (common.CoqEvalError, ValueError) as ex:
            corr_ok, detail = False, str(ex)
    ctx.obligation("correspondence:Model.Sampling==readout_with_error/apply_measurement_errors/MPS.sample/"
                   "StateVector.sample/DensityMatrix.sample with scripted random()/multinomial (exact)",
                   corr_ok, detail, kind="correspondence")

    totals_stage(ctx, hist)

    # ---- statistical correspondence of the real samplers ---------------------------------------
    scases = [c for c in corpus_cases() if c["kind"].startswith("stat")]
    for kind, nq, nt in (("stat_sv", 16, 150), ("stat_dm", 10, 80), ("stat_mps", 16, 150)):
        scases += [gen_stat_case(rng, kind, th) for _ in range(ctx.n(nq, nt))]
    all_tests = []
    for c in scases:
        try:
            out, probs = run_stat(c)
        except Exception as ex:  # a sampler that raises on a valid state is a concrete failing input
            ctx.violation(f"{c['kind']}: the real sampler raised on a valid state: {ex!r}",
                          {"case": c, "finding_key": "sampler-raises"})
            continue
        tests, definite = stat_tests(c, out, probs)
        for msg in definite:
            ctx.violation(f"{c['kind']}: {msg}", {"case": c, "finding_key": "impossible-outcome" if "probability 0" in msg else "shot-count"})
        all_tests += [(c, t) for t in tests]
        h(f"{c['kind']}/shots={c['shots']}/errors={c['pfp'] > 0 or c['pfn'] > 0}")
        ctx.count_case({kk: vv for kk, vv in c.items() if kk not in ("factors", "amps", "mix")} |
                       {"sig": str(c.get("factors", c.get("amps")))[:200]}, True)
    from scipy.stats import binomtest
    alpha = FWER / max(1, len(all_tests))
    worst = (1.0, None)
    for c, (label, cnt, shots, p) in all_tests:
        pv = binomtest(cnt, shots, p).pvalue if 0.0 < p < 1.0 else (1.0 if cnt == (shots if p >= 1.0 else 0) else 0.0)
        if pv < worst[0]:
            worst = (pv, (c["kind"], label, cnt, shots, p))
        if pv < alpha:
            ctx.violation(f"{c['kind']}: outcome {label} sampled {cnt}/{shots} times, exact probability {p:.6g} "
                          f"(binomial p-value {pv:.3g} < {alpha:.3g})",
                          {"case": c, "label": label, "finding_key": "distribution-" + c["kind"]})
    ctx.extra["statistics"] = {"tests": len(all_tests), "alpha_per_test": alpha, "family_wise_error": FWER,
                               "smallest_p_value": worst[0], "at": str(worst[1])}
    ctx.extra["input_distribution"] = dict(sorted(hist.items()))
    ctx.rule = ("exact: random Counters of 1-4 bitstrings (length 1-6, counts 0-6), rates in {0, 1, k/16, random float}, "
                "streams with 40% draws exactly equal to a rate (strict <), Gaussian-integer MPS (qubit 2-6, qutrit 2-4 "
                "atoms) with num_shots in {0,1,5,31,32,33,63,64,65,70,96,128} and scripted outcomes incl. zero-weight ones, "
                "totals of the real samplers (MPS qubit/qutrit, state vector, density matrix; with and without readout errors) "
                "for num_shots in {1,31,32,33,63,64,65,96,1024,2048}; Gaussian-integer state vectors N<=5 / density matrices N<=3 (also negative diagonal entries), all 16+8 "
                "gate configurations; statistical: integer-amplitude states of 2-8 atoms, shots 200-5000 (20000 thorough), "
                "40% with readout errors; every case non-trivial unless it has no shots / N=1; distinct by input hash")
    ctx.trusted_base += ["torch.multinomial draws index i with probability w_i / sum w and random.random() is uniform "
                         "on [0,1) (library oracles; only tested statistically)",
                         "hand-written Gallina model coq/Model/Sampling.v, validated by the scripted-oracle "
                         "correspondence on every run", "scipy.stats.binomtest (exact two-sided binomial test)"]
    ctx.assumptions += ["statistical acceptance: exact binomial test per outcome string and per atom marginal, "
                        "Bonferroni over all tests of the run, family-wise error 1e-6; outcomes of probability 0 and "
                        "wrong totals are definite violations",
                        "the chain rule is proved under the right-orthonormality premise that orthogonalize(0) "
                        "establishes numerically (QR); the Born distribution of the real MPS sampler after QR is "
                        "covered by the statistical test",
                        "`vector_norm(x) ** 2` is replaced by the exact sum of squares for the exact comparison of "
                        "the MPS weight rows (Gaussian-integer chains declared with orthogonality_center = 0)"]


def replay(ctx, path):
    rp = json.loads(open(path).read())
    c = rp["case"]
    k = c["kind"]
    if k == "totals":
        replay_totals(ctx, c)
    elif k == "readout":
        oracle_readout(ctx, c, impl_readout(c))
    elif k == "mps_scripted":
        oracle_mps_scripted(ctx, c, impl_mps_scripted(c))
    elif k.startswith("stat"):
        from scipy.stats import binomtest
        try:
            out, probs = run_stat(c)
        except Exception as ex:
            ctx.violation(f"{c['kind']}: the real sampler raised on a valid state: {ex!r}",
                          {"case": c, "finding_key": "sampler-raises"})
            return
        tests, definite = stat_tests(c, out, probs)
        for msg in definite:
            ctx.violation(f"{k}: {msg}", {"case": c, "finding_key": "impossible-outcome"})
        alpha = FWER / max(1, len(tests))
        for label, cnt, shots, p in tests:
            if 0 < p < 1 and binomtest(cnt, shots, p).pvalue < alpha:
                ctx.violation(f"{k}: outcome {label} sampled {cnt}/{shots}, exact probability {p:.6g}",
                              {"case": c, "label": label, "finding_key": "distribution-" + k})
        print("replay:", k, "tests", len(tests), "definite", definite)
    else:
        print("replay:", k, impl_gate(c) if k.startswith("gate") else impl_sv_scripted(c))


META = {
    "category": "proof",
    "technique": "Coq proofs about the executable sampler model with random()/multinomial as oracles + exact "
                 "scripted-oracle correspondence with the real code + exact binomial tests of the real samplers",
    "text": ("Proved for all inputs: the readout flip events (0->1 iff r < p_false_pos, 1->0 iff r < p_false_neg, other "
             "characters unchanged), their grid probabilities, a fresh draw per character, count and length "
             "preservation; the truth table of the error gate; the batch loop yields exactly num_shots outcomes in "
             "ceil(n/32) batches and terminates; for every chain whose factors right of site 0 have orthonormal rows the "
             "conditional weights sum to the running weight and the product of conditional probabilities along any "
             "string is |amp|^2 / D0 (division-free); index -> big-endian bitstring. Validated: the model is the code "
             "(scripted oracles, exact); the library samplers and QR are faithful (statistical, FWER 1e-6)."),
    "note": ("Trusted: Coq kernel+VM, the hand-written model (tied exactly on every run), torch.multinomial and "
             "random.random as faithful samplers, scipy binomtest."),
}
