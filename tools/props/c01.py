"""C01 — emu-sv noiseless runs reproduce the Pulser Hamiltonian dynamics (DESIGN.md §4 C01).

Model: coq/Model/SvMachine.v (step loop of SVBackendImpl as a machine over oracle kernels).
Theorems: coq/Properties/C01.v (closed form of a run for every number of steps; ordered fold; what every
callback receives; matrix query times; abstract error accumulation).
Tie: exact/bit-exact trace correspondence (tools/props/_sv_trace.py) of the real SVBackendImpl with
stubbed kernels against vm_compute of the machine, every run.
Falsifier: end-to-end runs of the real backend (hand-built SequenceData and real Pulser sequences through
SVBackend.run) against an independent dense expm reference (tools/props/_dense_ref.py)."""
import json
import logging
import math
import warnings

import numpy as np

from props import _dense_ref as D
from props import _sv_trace as T
from vlib import common
from vlib.coqparse import parse

# Tolerance of the falsifier: FLOOR + SAFETY * steps * krylov_tolerance (linear accumulation, theorem
# C01_error_accumulation with eps_k ~ krylov_tolerance).  Calibration on the current tree (500 runs, 1-8 atoms,
# 1-400 steps, tolerance 1e-8..1e-10): worst amplitude error 1.1 * steps * tol (absolute 1.4e-6 at 384 steps,
# tol 1e-8), worst occupation/correlation 0.11 * steps * tol, worst energy (relative to 1+|H|) 0.1 * steps * tol.
# A wrong time unit, a drive row off by one, the sign of -1j, a matrix taken at another time or a skipped step
# change occupations by 1e-3..1 on these problem families (largest tolerance reachable here: 4e-4).
FLOOR = 1e-8
SAFETY = 100.0
DT_CHOICES = [0.25, 0.5, 1.0, 2.0, 3.0, 5.0, 7.0, 10.0, 16.0, 23.0, 37.0]


# ---- dense reference, vectorised for n >= 5 (cross-checked against _dense_ref.dense_H on every use) -----
def fast_H(omega, delta, phi, U):
    """same convention as _dense_ref.dense_H: atom 0 most significant, <r|H|g> = Omega/2 e^{i phi}"""
    n = len(omega)
    dim = 2 ** n
    idx = np.arange(dim)
    bits = np.array([(idx >> (n - 1 - j)) & 1 for j in range(n)], dtype=float)   # (n, dim)
    diag = -(np.asarray(delta, dtype=float)[:, None] * bits).sum(axis=0)
    Uu = np.triu(np.asarray(U, dtype=float), 1)
    diag = diag + np.einsum("ik,ij,jk->k", bits, Uu, bits)
    H = np.zeros((dim, dim), dtype=complex)
    H[idx, idx] = diag
    for j in range(n):
        b = 1 << (n - 1 - j)
        lo = idx[(idx & b) == 0]
        a = 0.5 * omega[j] * np.exp(1j * phi[j])
        H[lo | b, lo] += a
        H[lo, lo | b] += np.conj(a)
    return H


_FAST_CHECKED = []


def dense_H(omega, delta, phi, U):
    n = len(omega)
    if n < 5:
        return D.dense_H(omega, delta, phi, U)
    if not _FAST_CHECKED:
        rs = np.random.RandomState(7)
        for m in (1, 2, 3, 4):
            o, d, p = rs.rand(m) * 5, rs.randn(m) * 5, rs.randn(m)
            Um = rs.rand(m, m) * 3
            Um = Um + Um.T
            assert np.abs(fast_H(o, d, p, Um) - D.dense_H(o, d, p, Um)).max() < 1e-12
        _FAST_CHECKED.append(True)
    return fast_H(omega, delta, phi, U)


def evolve(omega, delta, phi, U_of_t, times, psi0=None):
    """_dense_ref.evolve(u_query='start') with the vectorised Hamiltonian for n >= 5"""
    import scipy.linalg as sla

    n = omega.shape[1]
    if n < 5:
        return D.evolve(omega, delta, phi, U_of_t, times, psi0=psi0, u_query="start")
    psi = np.zeros(2 ** n, dtype=complex)
    psi[0] = 1.0
    if psi0 is not None:
        psi = np.array(psi0, dtype=complex)
    out, Hs = [psi.copy()], []
    for k in range(omega.shape[0]):
        H = dense_H(omega[k], delta[k], phi[k], np.asarray(U_of_t(times[k])))
        psi = sla.expm(-1j * H * (times[k + 1] - times[k]) * 1e-3) @ psi
        out.append(psi.copy())
        Hs.append(H)
    return out, Hs


# ---- (a) trace correspondence -------------------------------------------------------------------
def trace_stage(ctx, n_cases):
    cases = [T.gen_case(ctx.rng, malformed=(i % 8 == 7)) for i in range(n_cases)]
    impl = [T.run_impl(c) for c in cases]
    ok, detail, hist = True, "", {}
    try:
        ev = common.CoqEval("C01trace", T.HEADER)
        for c, r in zip(cases, impl):
            cfg = r.get("config")
            if cfg is None:
                _, cfg = T.build(c, T.Rec())
            ev.add(T.model_expr(c, T.eval_table(c, cfg)))
        outs = ev.run()
        for c, r, o in zip(cases, impl, outs):
            good, d = T.compare(c, r, parse(o))
            nev = len(r["events"])
            ncb = sum(1 for e in r["events"] if e[0] == 4)
            ctx.count_case({"kind": "trace", "n": c["n"], "rows": c["rows"], "times": c["times"][:4],
                            "dark": c["dark"], "obs": len(c["obs"]), "outcome": r["outcome"], "events": nev,
                            "callbacks": ncb, "malformed": c.get("malformed")}, nontrivial=nev >= 6)
            key = f"outcome={r['outcome']}/{c.get('malformed') or 'wellformed'}"
            hist[key] = hist.get(key, 0) + 1
            if not good and ok:
                ok, detail = False, f"case={ {k: c[k] for k in ('n', 'rows', 'dark', 'obs')} } times={c['times'][:5]} {d}"
                ctx.extra["first_trace_disagreement"] = {"case": c, "detail": d}
    except (common.CoqEvalError, ValueError) as ex:
        ok, detail = False, str(ex)
    ctx.extra["trace_distribution"] = hist
    ctx.obligation("correspondence:Model.SvMachine==sv_backend_impl step loop (events exact, times/dt bit-exact)",
                   ok, detail, kind="correspondence")
    return ok


# ---- (b) hand-built SequenceData vs dense reference ------------------------------------------------
def hand_case(rng, n=None):
    n = n or rng.choice([1, 2, 2, 3, 3, 4, 5, 6, 7, 8])
    steps = rng.choice([1, 2, 5, 9, 16, 30]) if n <= 6 else rng.choice([3, 8])
    prob = D.random_problem(rng, n, steps, dt=10.0, local=rng.random() < 0.7, phases=rng.random() < 0.7)
    if n > 6:
        # random_problem cannot keep more than ~6 atoms apart in its 4x4 box; nearly coincident atoms give
        # |H| dt ~ 1e3..1e5, which emu-sv (rightly) refuses with RecursionError: use a jittered grid instead
        side = int(np.ceil(np.sqrt(n)))
        a = rng.uniform(1.0, 1.3)
        pos = np.array([[a * (i % side) + rng.uniform(-0.1, 0.1), a * (i // side) + rng.uniform(-0.1, 0.1)]
                        for i in range(n)])
        dist = np.linalg.norm(pos[:, None] - pos[None], axis=-1) + np.eye(n)
        prob["U"] = (5.0 / dist ** 6) * (1 - np.eye(n))
    mode = rng.choice(["grid", "grid", "irregular"])
    if mode == "grid":
        dt = rng.choice(DT_CHOICES)
        times = [k * dt for k in range(steps + 1)]
    else:
        times, t = [0.0], 0.0
        for _ in range(steps):
            t += rng.choice(DT_CHOICES)
            times.append(t)
    prob["times"] = times
    ks = sorted(set([steps] + [rng.randint(0, steps) for _ in range(rng.randint(0, 3))]))
    slm = None
    if n >= 2 and rng.random() < 0.35:
        # SLM-like time-dependent matrix: some atoms decoupled before slm_end (inside or at a step boundary)
        targets = sorted(rng.sample(range(n), rng.randint(1, n - 1)))
        k = rng.randint(0, steps)
        end = times[k] if rng.random() < 0.5 else rng.uniform(0.0, times[-1])
        slm = {"targets": targets, "end": end}
    psi0 = None
    if rng.random() < 0.3:
        v = np.array([complex(rng.gauss(0, 1), rng.gauss(0, 1)) for _ in range(2 ** n)])
        v /= np.linalg.norm(v)
        psi0 = [[float(x.real), float(x.imag)] for x in v]
    return {"kind": "hand", "prob": prob, "ks": ks, "slm": slm, "psi0": psi0,
            "tol": rng.choice([1e-8, 1e-9, 1e-10])}


def _U_of_t(prob, slm):
    U = np.array(prob["U"], dtype=float)
    if slm is None:
        return lambda t: U
    Um = U.copy()
    for j in slm["targets"]:
        Um[j, :] = 0.0
        Um[:, j] = 0.0
    return lambda t: (Um if t < slm["end"] else U)


def _observables(et):
    from pulser.backend import (CorrelationMatrix, Energy, EnergySecondMoment, EnergyVariance, Occupation,
                                StateResult)

    return [Occupation(evaluation_times=et), Energy(evaluation_times=et), StateResult(evaluation_times=et),
            CorrelationMatrix(evaluation_times=et), EnergyVariance(evaluation_times=et),
            EnergySecondMoment(evaluation_times=et)]


def _errors(res, et, ks, ref, Hs, H0, n):
    out = []
    stored = res.get_result_times("occupation")
    for t, k in zip(et, ks):
        # results are stored under t_k / t_n, which can differ from the requested time by an ulp
        # (0.8 * 24 / 24 != 0.8); pulser's get_result wants the exact key (bookkeeping: C14/C21)
        t = min(stored, key=lambda x: abs(x - t))
        psi = ref[k]
        H = H0 if k == 0 else Hs[k - 1]
        occ = np.array([float(x) for x in res.get_result("occupation", t)])
        cor = np.array(res.get_result("correlation_matrix", t), dtype=float)
        st = res.get_result("state", t).data.detach().cpu().numpy().reshape(-1)
        en = float(res.get_result("energy", t))
        e2 = float(res.get_result("energy_second_moment", t))
        var = float(res.get_result("energy_variance", t))
        e_ref = D.energy(psi, H)
        e2_ref = float(np.real(np.vdot(H @ psi, H @ psi)))
        scale = 1.0 + float(np.abs(H).sum(axis=1).max())
        out.append(dict(
            t=t, k=k,
            occ=float(np.abs(occ - D.occupation(psi, n)).max()),
            cor=float(np.abs(cor - D.correlation(psi, n)).max()),
            state=float(np.abs(st - psi).max()), norm=abs(float(np.linalg.norm(st)) - 1.0),
            en=abs(en - e_ref) / scale, e2=abs(e2 - e2_ref) / scale ** 2,
            var=abs(var - (e2_ref - e_ref ** 2)) / scale ** 2))
    return out


def run_hand(case):
    import emu_sv
    import torch

    prob = case["prob"]
    n, steps, times = prob["n"], prob["steps"], prob["times"]
    et = [times[k] / times[-1] for k in case["ks"]]
    U_of_t = _U_of_t(prob, case["slm"])
    psi0 = None if case["psi0"] is None else np.array([complex(a, b) for a, b in case["psi0"]])
    kw = {}
    if psi0 is not None:
        kw["initial_state"] = emu_sv.StateVector(torch.tensor(psi0, dtype=torch.complex128), gpu=False)
    with warnings.catch_warnings():
        warnings.simplefilter("ignore")
        cfg = emu_sv.SVConfig(observables=_observables(et), log_level=logging.CRITICAL, gpu=False,
                              krylov_tolerance=case["tol"], **kw)
        sd = D.to_sequence_data(prob, U_of_t=U_of_t if case["slm"] else None)
        with count_krylov() as ck:
            res = emu_sv.SVBackend._run_from_sequence_data(sd, cfg)
        KRYLOV_STATS.append(("hand", steps, ck.calls, ck.direct, False))
    om, de, ph = (np.array(prob[k], dtype=float) for k in ("omega", "delta", "phi"))
    ref, Hs = evolve(om, de, ph, U_of_t, times, psi0=psi0)
    H0 = dense_H(om[0], de[0], ph[0], np.asarray(U_of_t(0.5 * (times[0] + times[1]))))
    return _errors(res, et, case["ks"], ref, Hs, H0, n)


# ---- (c) real Pulser sequences through SVBackend.run ---------------------------------------------------
def seq_spec(rng, n=None):
    n = n or rng.choice([1, 2, 2, 3, 3, 4, 5, 6, 7, 8])
    layout = rng.choice(["global", "global+local", "global+dmm", "global+dmm+slm", "local2", "global+slm"])
    if n == 1 and "slm" in layout:
        layout = "global"
    spacing = rng.choice([5.0, 6.0, 7.0, 9.0])
    pulses = []
    for _ in range(rng.randint(1, 3)):
        pulses.append({"amp": rng.choice(["constant", "ramp", "blackman", "interpolated", "composite"]),
                       "det": rng.choice(["constant", "ramp", "interpolated"]),
                       "dur": rng.choice([16, 24, 40, 52, 80, 100]),
                       "a": rng.uniform(1.0, 9.0), "b": rng.uniform(0.5, 9.0), "d0": rng.uniform(-8, 8),
                       "d1": rng.uniform(-8, 8), "phase": rng.choice([0.0, 0.0, 0.4, 1.3, 3.0])})
    dt = rng.choice(DT_CHOICES)
    total = sum(p["dur"] for p in pulses)
    cap = 400 if n <= 5 else (120 if n == 6 else 40)
    if total / dt > cap:
        dt = min(d for d in DT_CHOICES + [74.0, 111.0] if total / d <= cap)
    return {"kind": "pulser", "n": n, "layout": layout, "spacing": spacing, "pulses": pulses, "dt": dt,
            "local": {"target": rng.randrange(n), "dur": rng.choice([16, 32, 60]), "amp": rng.uniform(1, 6),
                      "det": rng.uniform(-5, 5), "phase": rng.choice([0.0, 0.7])},
            "dmm": {"w": [rng.choice([0.0, 0.25, 0.5, 1.0]) for _ in range(n)], "dur": rng.choice([20, 48]),
                    "d0": -rng.uniform(0.5, 3.0), "d1": -rng.uniform(3.0, 8.0)},
            "slm": sorted(rng.sample(range(n), rng.randint(1, n - 1))) if n >= 2 else [],
            "rel": sorted(set([1.0] + [rng.choice([0.0, 0.25, 0.5, 1.0 / 3.0, 0.8]) for _ in range(rng.randint(0, 2))])),
            "tol": rng.choice([1e-8, 1e-9, 1e-10]), "modulation": rng.random() < 0.2}


def build_seq(spec):
    from pulser import Pulse, Register, Sequence
    from pulser.devices import MockDevice
    from pulser.waveforms import (BlackmanWaveform, CompositeWaveform, ConstantWaveform, InterpolatedWaveform,
                                  RampWaveform)

    n = spec["n"]
    s = spec["spacing"]
    coords = {f"q{i}": (s * (i % 3) + 0.4 * (i // 3), s * (i // 3)) for i in range(n)}
    reg = Register(coords)
    seq = Sequence(reg, MockDevice)
    lay = spec["layout"]
    if "dmm" in lay:
        w = list(spec["dmm"]["w"])
        if not any(w):
            w[0] = 1.0
        seq.config_detuning_map(reg.define_detuning_map({f"q{i}": w[i] for i in range(n)}), "dmm_0")
    if "slm" in lay and spec["slm"]:
        seq.config_slm_mask([f"q{i}" for i in spec["slm"]])

    def amp_wf(p):
        d = p["dur"]
        if p["amp"] == "constant":
            return ConstantWaveform(d, p["a"])
        if p["amp"] == "ramp":
            return RampWaveform(d, p["a"], p["b"])
        if p["amp"] == "blackman":
            return BlackmanWaveform(d, min(p["a"], 0.04 * d))
        if p["amp"] == "interpolated":
            return InterpolatedWaveform(d, [0.0, p["a"], p["b"], 0.0])
        d1 = max(4, (d // 8) * 4)
        return CompositeWaveform(RampWaveform(d1, 0.0, p["a"]), ConstantWaveform(max(4, d - d1), p["a"]))

    def det_wf(p, d):
        if p["det"] == "constant":
            return ConstantWaveform(d, p["d0"])
        if p["det"] == "ramp":
            return RampWaveform(d, p["d0"], p["d1"])
        return InterpolatedWaveform(d, [p["d0"], p["d1"], 0.5 * (p["d0"] - p["d1"])])

    if lay != "local2":
        seq.declare_channel("glob", "rydberg_global")
        for p in spec["pulses"]:
            a = amp_wf(p)
            seq.add(Pulse(a, det_wf(p, a.duration), p["phase"]), "glob")
    if "local" in lay:
        lo = spec["local"]
        seq.declare_channel("loc", "rydberg_local", initial_target=f"q{lo['target']}")
        seq.add(Pulse(ConstantWaveform(lo["dur"], lo["amp"]), ConstantWaveform(lo["dur"], lo["det"]), lo["phase"]),
                "loc", protocol="no-delay" if lay == "local2" else "min-delay")
        if lay == "local2":
            seq.declare_channel("loc2", "rydberg_local", initial_target=f"q{(lo['target'] + 1) % n}")
            for p in spec["pulses"]:
                a = amp_wf(p)
                seq.add(Pulse(a, det_wf(p, a.duration), p["phase"]), "loc2", protocol="no-delay")
    if "dmm" in lay:
        dm = spec["dmm"]
        seq.add_dmm_detuning(RampWaveform(dm["dur"], dm["d0"], dm["d1"]), "dmm_0")
    return seq, reg


def independent_U(spec, reg, seq):
    """C6 / r^6 from the register geometry (Pulser's convention: distances rounded to 1e-6 um,
    COORD_PRECISION), SLM-masked before the end of the first global pulse."""
    from pulser.devices import MockDevice

    ids = list(reg.qubit_ids)
    pos = np.array([np.asarray(reg.qubits[q].as_array() if hasattr(reg.qubits[q], "as_array") else reg.qubits[q],
                               dtype=float) for q in ids])
    n = len(ids)
    U = np.zeros((n, n))
    for i in range(n):
        for j in range(n):
            if i != j:
                U[i, j] = MockDevice.interaction_coeff / round(float(np.linalg.norm(pos[i] - pos[j])), 6) ** 6
    Um = U.copy()
    targets = [ids.index(q) for q in seq._slm_mask_targets]
    for j in targets:
        Um[j, :] = 0.0
        Um[:, j] = 0.0
    end = seq._slm_mask_time[1] if len(seq._slm_mask_time) > 1 else 0.0
    return lambda t: (Um if t < end else U)


def run_seq(spec):
    import emu_sv
    from emu_base.pulser_adapter import PulserData

    seq, reg = build_stiff(spec) if spec["kind"] == "stiff" else build_seq(spec)
    n = spec["n"]
    et = list(spec["rel"])
    with warnings.catch_warnings():
        warnings.simplefilter("ignore")
        cfg = emu_sv.SVConfig(dt=spec["dt"], observables=_observables(et), log_level=logging.CRITICAL, gpu=False,
                              krylov_tolerance=spec["tol"], with_modulation=False)
        with count_krylov() as ck:
            try:
                res = emu_sv.SVBackend(seq, config=cfg).run()
            except RecursionError:
                # the Lanczos exponential did not converge on some step: the run is REFUSED (allowed)
                KRYLOV_STATS.append((spec["kind"], None, ck.calls, ck.direct, True))
                return None, {"steps": None, "refused": True}
        # the drive table and target times of the adapter (their correctness is C21/C22's), fresh copy
        sd = next(iter(PulserData(sequence=seq, config=cfg, dt=cfg.dt).get_sequences()))
    times = [float(t) for t in sd.target_times]
    om, de, ph = (np.array(x.real, dtype=float) for x in (sd.omega, sd.delta, sd.phi))
    if om.shape != (len(times) - 1, n):
        raise AssertionError(f"drive table shape {om.shape} for {len(times)} times / {n} atoms")
    U_of_t = independent_U(spec, reg, seq)
    ref, Hs = evolve(om, de, ph, U_of_t, times)
    H0 = dense_H(om[0], de[0], ph[0], np.asarray(U_of_t(0.5 * (times[0] + times[1]))))
    ks = []
    for r in et:
        k = min(range(len(times)), key=lambda i: abs(times[i] / times[-1] - r))
        ks.append(k)
    errs = _errors(res, et, ks, ref, Hs, H0, n)
    KRYLOV_STATS.append((spec["kind"], len(times) - 1, ck.calls, ck.direct, False))
    return errs, {"steps": len(times) - 1, "duration": times[-1]}



# ---- tie of the step kernel's entry point --------------------------------------------------------------
# The model's stepper is EvolveStateVector.apply -> forward -> evolve -> krylov_exp(op, state, ...), the wrapper
# that REFUSES (RecursionError) a step whose Lanczos exponential did not converge.  (a) source shape (fail closed),
# (b) at run time every forward step of every end-to-end run must go through emu_sv.time_evolution.krylov_exp
# exactly once and never reach krylov_exp_impl directly from that module's namespace.
def evolve_shape_problems():
    import ast

    src = (common.REPO / "emu_sv/time_evolution.py").read_text()
    try:
        tree = ast.parse(src)
    except SyntaxError as ex:
        return [f"syntax error: {ex}"]
    cls = next((n for n in tree.body if isinstance(n, ast.ClassDef) and n.name == "EvolveStateVector"), None)
    fn = next((n for n in (cls.body if cls else []) if isinstance(n, ast.FunctionDef) and n.name == "evolve"), None)
    if fn is None:
        return ["EvolveStateVector.evolve not found"]
    out = []
    calls = [n for n in ast.walk(fn) if isinstance(n, ast.Call)]
    kry = [c for c in calls if "krylov" in ast.unparse(c.func)]
    if [ast.unparse(c.func) for c in kry] != ["krylov_exp"]:
        out.append(f"evolve must call krylov_exp exactly once and no other Krylov entry point: {[ast.unparse(c.func) for c in kry]}")
        return out
    call = kry[0]
    kw = {k.arg: ast.unparse(k.value) for k in call.keywords}
    if kw != {"norm_tolerance": "krylov_tolerance", "exp_tolerance": "krylov_tolerance", "is_hermitian": "True"}:
        out.append(f"unexpected krylov_exp keywords {kw}")
    if not call.args or ast.unparse(call.args[0]) != "op":
        out.append("first argument of krylov_exp is not op")
    assign = next((n for n in ast.walk(fn) if isinstance(n, ast.Assign) and n.value is call), None)
    ret = [n for n in ast.walk(fn) if isinstance(n, ast.Return) and n.value is not None
           and not any(isinstance(p, ast.FunctionDef) and p is not fn and n in ast.walk(p) for p in ast.walk(fn))]
    ok_ret = (assign is not None and len(assign.targets) == 1 and isinstance(assign.targets[0], ast.Name)
              and len(ret) == 1 and isinstance(ret[0].value, ast.Tuple) and len(ret[0].value.elts) == 2
              and ast.unparse(ret[0].value.elts[0]) == assign.targets[0].id and ast.unparse(ret[0].value.elts[1]) == "ham")
    if not ok_ret:
        out.append("evolve does not return (result of krylov_exp, ham)")
    imp = [n for n in tree.body if isinstance(n, ast.ImportFrom) and n.module == "emu_base.math.krylov_exp"]
    names = sorted(a.name for n in imp for a in n.names)
    if names != ["krylov_exp"]:
        out.append(f"time_evolution imports {names} from emu_base.math.krylov_exp (expected only krylov_exp)")
    return out


KRYLOV_STATS = []   # (kind, steps, wrapper calls, direct impl calls, refused)


class count_krylov:
    def __enter__(self):
        import emu_sv.time_evolution as TE
        self.TE, self.calls, self.direct = TE, 0, 0
        self.saved = {k: getattr(TE, k) for k in ("krylov_exp", "krylov_exp_impl") if hasattr(TE, k)}

        def wrapper(*a, **k):
            self.calls += 1
            return self.saved["krylov_exp"](*a, **k)

        TE.krylov_exp = wrapper
        if "krylov_exp_impl" in self.saved:
            def direct(*a, **k):
                self.direct += 1
                return self.saved["krylov_exp_impl"](*a, **k)
            TE.krylov_exp_impl = direct
        return self

    def __exit__(self, *exc):
        for k, v in self.saved.items():
            setattr(self.TE, k, v)
        return False


# ---- (d) stiff runs: refuse or be accurate ---------------------------------------------------------------
def stiff_spec(rng):
    return {"kind": "stiff", "n": rng.choice([7, 8, 8]), "scale": rng.choice([4.6, 5.0, 5.0, 5.4]),
            "dt": rng.choice([50, 100, 200]), "seed": rng.randrange(2 ** 31), "tol": 1e-10, "dur": 400,
            "rel": [0.5, 1.0], "slm": []}


def build_stiff(spec):
    from pulser import Pulse, Register, Sequence
    from pulser.devices import MockDevice
    from pulser.waveforms import BlackmanWaveform, RampWaveform

    r = np.random.default_rng(spec["seed"])
    sc = spec["scale"]
    pts = [((k // 2) * sc + r.uniform(-0.6, 0.6), (k % 2) * sc + r.uniform(-0.6, 0.6)) for k in range(spec["n"])]
    reg = Register({f"q{i}": p for i, p in enumerate(pts)})
    seq = Sequence(reg, MockDevice)
    seq.declare_channel("ch", "rydberg_global")
    seq.add(Pulse(BlackmanWaveform(spec["dur"], 2 * np.pi), RampWaveform(spec["dur"], -5.0, 10.0), 0.3), "ch")
    return seq, reg


# ---- (e) ownership of the initial state; repeated runs --------------------------------------------------------
# krylov_exp normalises its input in place: the evolving state must be a private copy of config.initial_state.
# After every run the config's and the user's tensors are bit-identical to before and share no storage with the
# evolving state; the same config / the same backend object run twice, and n_trajectories=2 with identical
# (noise-free) trajectories, reproduce the same results.  Non-normalised initial vectors included (emu-sv evolves
# them linearly: the reference is the dense propagator applied to the same vector).
def ownership_case(rng):
    mode = rng.choice(["hand", "hand", "pulser"])
    n = rng.choice([1, 2, 3, 4])
    scale = rng.choice([1.0, 1.0, 0.5, 2.0, 3.0])
    case = {"kind": "ownership", "mode": mode, "n": n, "scale": scale, "seed": rng.randrange(2 ** 31), "tol": 1e-10}
    if mode == "hand":
        case["prob"] = D.random_problem(rng, n, rng.choice([2, 4, 7]), dt=rng.choice([5.0, 10.0, 23.0]))
    else:
        spec = seq_spec(rng, n=n)
        spec.update(layout=rng.choice(["global", "global+local"]), rel=[0.5, 1.0], tol=1e-10)
        case["spec"] = spec
    return case


def check_ownership(ctx, case):
    import random as _random
    import torch
    import emu_sv
    from pulser.backend import Occupation, StateResult
    from props.c16 import impl_captured, ownership_check

    r2 = _random.Random(case["seed"])
    n = case["n"]
    v = np.array([complex(r2.gauss(0, 1), r2.gauss(0, 1)) for _ in range(2 ** n)])
    v = v / np.linalg.norm(v) * case["scale"]
    user = torch.tensor(v, dtype=torch.complex128)
    before = user.clone()
    ini = emu_sv.StateVector(user, gpu=False)
    ser = _ser(case)
    what = f" ({case['mode']}, |psi0| = {case['scale']})"
    finals, occs = [], []
    lim = None
    try:
        with warnings.catch_warnings():
            warnings.simplefilter("ignore")
            if case["mode"] == "hand":
                prob = case["prob"]
                cfg = emu_sv.SVConfig(observables=[StateResult(evaluation_times=[1.0]), Occupation(evaluation_times=[1.0])],
                                      log_level=logging.CRITICAL, gpu=False, initial_state=ini, krylov_tolerance=case["tol"])
                data = D.to_sequence_data(prob)
                for rep in range(2):
                    with impl_captured() as cap:
                        res = emu_sv.SVBackend._run_from_sequence_data(data, cfg)
                    finals.append(res.get_result("state", 1.0).data.clone())
                    ownership_check(ctx, ser, cap, [("config.initial_state.data", cfg.initial_state.data, before),
                                                    ("the user's initial state tensor", user, before)],
                                    f" (run {rep + 1}{what})")
                om, de, ph = (np.array(prob[k], dtype=float) for k in ("omega", "delta", "phi"))
                ref, _ = evolve(om, de, ph, lambda t: np.array(prob["U"]), prob["times"], psi0=v)
                lim = (FLOOR + SAFETY * prob["steps"] * case["tol"]) * max(1.0, case["scale"])
                err = float(np.abs(finals[0].numpy().reshape(-1) - ref[-1]).max())
                if err > lim:
                    ctx.violation(f"emu-sv final state differs from the dense propagator applied to the initial vector by "
                                  f"{err:.3g} (> {lim:.3g}){what}", {"case": ser, "finding_key": "sv-dynamics-initial-state"})
            else:
                seq, reg = build_seq(case["spec"])

                def config(ntraj):
                    return emu_sv.SVConfig(dt=case["spec"]["dt"], log_level=logging.CRITICAL, gpu=False, initial_state=ini,
                                           krylov_tolerance=case["tol"], n_trajectories=ntraj,
                                           observables=[StateResult(evaluation_times=[1.0]), Occupation(evaluation_times=[1.0])])
                cfg = config(1)
                backend = emu_sv.SVBackend(seq, config=cfg)
                for rep in range(2):       # run() twice on the same backend object
                    with impl_captured() as cap:
                        res = backend.run()
                    finals.append(res.get_result("state", 1.0).data.clone())
                    occs.append(np.asarray(res.get_result("occupation", 1.0), dtype=float))
                    ownership_check(ctx, ser, cap, [("config.initial_state.data", cfg.initial_state.data, before),
                                                    ("the user's initial state tensor", user, before)],
                                    f" (run() call {rep + 1}{what})")
                cfg2 = config(2)           # two identical noise-free trajectories, aggregated
                with impl_captured() as cap:
                    res2 = emu_sv.SVBackend(seq, config=cfg2).run()
                ownership_check(ctx, ser, cap, [("config.initial_state.data", cfg2.initial_state.data, before),
                                                ("the user's initial state tensor", user, before)],
                                f" (n_trajectories=2{what})")
                o2 = np.asarray(res2.get_result("occupation", 1.0), dtype=float)
                if cap.count != 2:
                    ctx.violation(f"n_trajectories=2 simulated {cap.count} runs{what}", {"case": ser, "finding_key": "repeat-run-differs"})
                if float(np.abs(o2 - occs[0]).max()) > 1e-12 * max(1.0, case["scale"] ** 2):
                    ctx.violation(f"the mean over 2 identical trajectories differs from a single run by "
                                  f"{float(np.abs(o2 - occs[0]).max()):.3g}{what}",
                                  {"case": ser, "finding_key": "repeat-run-differs"})
    except Exception as ex:  # noqa: BLE001
        ctx.violation(f"emu-sv raised on a valid run with an initial state{what}: {ex!r}",
                      {"case": ser, "finding_key": "sv-raises-initial-state"})
        return
    if len(finals) == 2 and float((finals[0] - finals[1]).abs().max()) > 1e-12 * max(1.0, case["scale"]):
        ctx.violation(f"two runs with the same config and initial state end in different states (max difference "
                      f"{float((finals[0] - finals[1]).abs().max()):.3g}){what}",
                      {"case": ser, "finding_key": "repeat-run-differs"})
    hist = ctx.extra.setdefault("ownership_cases", {})
    key = f"{case['mode']}/{'normalised' if case['scale'] == 1.0 else 'non-normalised'}"
    hist[key] = hist.get(key, 0) + 1
    ctx.count_case({"kind": "ownership", "mode": case["mode"], "n": n, "scale": case["scale"]},
                   nontrivial=case["scale"] != 1.0)

# ---- oracle ------------------------------------------------------------------------------------------
def judge(ctx, case, errs, nsteps):
    worst = {k: max(e[k] for e in errs) for k in ("occ", "cor", "state", "norm", "en", "e2", "var")}
    for k, v in worst.items():
        ctx.extra["e2e_worst"][k] = max(ctx.extra["e2e_worst"].get(k, 0.0), v)
    # per-step Krylov tolerance accumulates at most linearly (theorem C01_error_accumulation)
    lim = FLOOR + SAFETY * nsteps * case["tol"]
    bad = any(v > lim for v in worst.values())
    ctx.extra["e2e_worst_over_steps_tol"] = max(ctx.extra.get("e2e_worst_over_steps_tol", 0.0),
                                                max(worst.values()) / (nsteps * case["tol"]))
    if bad:
        ctx.violation(
            "emu-sv results differ from exact evolution under the per-step Hamiltonian "
            f"(occupation {worst['occ']:.3g}, state {worst['state']:.3g}, |norm-1| {worst['norm']:.3g}, "
            f"energy(rel) {worst['en']:.3g}; bound {lim:.3g})"
            + (": a run the Lanczos exponential cannot converge on must be refused, not answered" if case["kind"] == "stiff" else ""),
            {"case": _ser(case), "errors": errs,
             "finding_key": "unconverged-step-returned" if case["kind"] == "stiff" else "sv-dynamics-" + case["kind"]})
    return worst


def e2e_stage(ctx, n_hand, n_seq, n_stiff=0):
    ctx.extra["e2e_worst"] = {}
    hist = {}
    stiff = ctx.extra.setdefault("stiff_runs", {"refused": 0, "accepted": 0})
    for i in range(n_hand + n_seq + n_stiff):
        hand = i < n_hand
        case = hand_case(ctx.rng) if hand else (seq_spec(ctx.rng) if i < n_hand + n_seq else stiff_spec(ctx.rng))
        try:
            if hand:
                errs = run_hand(case)
                nsteps = case["prob"]["steps"]
                info = {"n": case["prob"]["n"], "steps": nsteps, "slm": case["slm"] is not None,
                        "psi0": case["psi0"] is not None, "dt0": case["prob"]["times"][1]}
            else:
                errs, meta = run_seq(case)
                nsteps = meta["steps"]
                info = {"n": case["n"], "steps": nsteps, "layout": case.get("layout", "stiff"), "dt": case["dt"],
                        "waveforms": [p["amp"] for p in case.get("pulses", [])]}
        except Exception as ex:  # noqa: BLE001  a run that raises on an accepted noiseless sequence
            ctx.violation(f"emu-sv raised on a valid noiseless input: {ex!r}",
                          {"case": _ser(case), "finding_key": "sv-raises-" + case["kind"]})
            continue
        if errs is None:   # refused with RecursionError (Lanczos exponential not converged)
            if case["kind"] == "stiff":
                stiff["refused"] += 1
                ctx.count_case({"kind": "stiff", "n": case["n"], "dt": case["dt"], "scale": case["scale"],
                                "refused": True}, nontrivial=True)
            else:
                ctx.violation("emu-sv refused (RecursionError) a mild noiseless sequence",
                              {"case": _ser(case), "finding_key": "sv-raises-" + case["kind"]})
            continue
        if case["kind"] == "stiff":
            stiff["accepted"] += 1
            info = {"n": case["n"], "steps": nsteps, "dt": case["dt"], "scale": case["scale"], "refused": False}
        w = judge(ctx, case, errs, nsteps)
        ctx.count_case({"kind": case["kind"], **info, "tol": case["tol"], "occ_err": w["occ"]}, nontrivial=True)
        key = f"{case['kind']}/n={info['n']}"
        hist[key] = hist.get(key, 0) + 1
    ctx.extra["e2e_distribution"] = hist


def _ser(case):
    def conv(v):
        if isinstance(v, np.ndarray):
            return v.tolist()
        if isinstance(v, dict):
            return {k: conv(x) for k, x in v.items()}
        return v
    return conv(case)


def _deser(c):
    c = dict(c)
    if c.get("kind") in ("hand", "ownership") and "prob" in c:
        p = dict(c["prob"])
        for k in ("omega", "delta", "phi", "U"):
            p[k] = np.array(p[k])
        c["prob"] = p
    return c


def corpus_cases():
    p = common.VERIF / "corpus" / "C01.json"
    return json.loads(p.read_text()) if p.exists() else []


def run(ctx):
    warnings.showwarning = lambda *a, **k: None   # pulser re-enables "Skipping aggregation of `state`" inside aggregate
    common.coq_make(["Model/SvMachine.vo"])
    common.standard_proof_stage(ctx, "C01", ["Properties/C01.vo"])
    trace_stage(ctx, ctx.n(120, 3000))
    ctx.extra["e2e_worst"] = {}
    probs = evolve_shape_problems()
    ctx.obligation("source-shape: EvolveStateVector.evolve returns (krylov_exp(op, state, tolerances, is_hermitian=True), ham)",
                   not probs, "; ".join(probs), kind="translator")
    corpus_refused = 0
    for c in corpus_cases():
        case = _deser(c)
        if case["kind"] == "ownership":
            check_ownership(ctx, case)
            continue
        if case["kind"] == "hand":
            errs, nsteps = run_hand(case), case["prob"]["steps"]
        else:
            errs, meta = run_seq(case)
            nsteps = meta["steps"]
        if errs is None:
            corpus_refused += 1
            continue
        judge(ctx, case, errs, nsteps)
    e2e_stage(ctx, ctx.n(25, 700), ctx.n(20, 500), ctx.n(4, 60))
    ctx.extra["stiff_runs"]["corpus_refused"] = corpus_refused
    for _ in range(ctx.n(12, 200)):
        check_ownership(ctx, ownership_case(ctx.rng))
    bad = [x for x in KRYLOV_STATS if x[3] != 0 or (not x[4] and x[2] != x[1])]
    ctx.extra["krylov_entry_point"] = {"runs": len(KRYLOV_STATS), "refused": sum(1 for x in KRYLOV_STATS if x[4]),
                                       "wrapper_calls": sum(x[2] for x in KRYLOV_STATS)}
    ctx.obligation("correspondence: every forward step reaches the Lanczos exponential through emu_sv.time_evolution.krylov_exp "
                   "(the refusing wrapper) exactly once", not bad and bool(KRYLOV_STATS),
                   f"(kind, steps, wrapper calls, direct impl calls, refused): {bad[:5]}", kind="correspondence")
    refusals = ctx.extra["stiff_runs"]["refused"] + corpus_refused
    ctx.obligation("harness: the stiff generator/corpus reaches the refusal branch (RecursionError) on this tree or every "
                   "stiff run is accurate", True, f"refused={refusals}", kind="harness")
    if refusals == 0:
        ctx.notes.append("no stiff run was refused on this tree: either the convergence guard is bypassed (then the accuracy "
                         "oracle decides) or the stiff generator is too soft")
    ctx.rule = ("(a) scripted step-loop cases: 1-6 qubits, 1-40 steps, integer/fractional/irregular/offset target "
                "times, 0-4 recording observables whose evaluation times sit on, near (1e-12..1e-6) or off the grid, "
                "dark-atom filters, malformed data (short target_times, short delta/phi tables, zero end time, no "
                "steps, extra time): real SVBackendImpl with EvolveStateVector/EvolveDensityMatrix rebound to "
                "recording stubs vs vm_compute of the Gallina machine, every event with all arguments; non-trivial "
                "= >= 6 events. (b) hand-built SequenceData (1-8 atoms, local/global drives, phases, SLM-like "
                "time-dependent matrix, random initial states, dt 0.25..37 regular and irregular) and (c) real "
                "Pulser sequences through SVBackend.run (global/local channels, DMM, SLM, 5 waveform families, "
                "phases) vs an independent dense expm reference: occupation, correlation, state amplitudes, norm, "
                "energy, second moment, variance at several evaluation times. (d) stiff runs (7-8 atoms on a jittered "
                "two-row register at 4.6-5.4 um, dt 50/100/200 ns, tolerance 1e-10): either refused with RecursionError "
                "(counted, evidence stiff_runs) or accurate to the same bound. (e) ownership / repeat: random initial vectors of "
                "norm 0.5..3 on hand-built data (same config run twice, final state vs the dense propagator) and on real "
                "sequences (run() twice on one backend; n_trajectories=2): config.initial_state and the user's tensor "
                "bit-identical after every run, no storage shared with the evolving state, repeated runs identical.")
    ctx.trusted_base += ["hand-written Model/SvMachine.v, tied by the trace correspondence on every run",
                         "recording stubs' faithfulness to the kernel signatures (EvolveStateVector.apply / "
                         "get_hamiltonian)",
                         "dense reference tools/props/_dense_ref.py (numpy/scipy expm) for the falsifier"]
    ctx.assumptions += [
        "NOT proved: that one Krylov step is within krylov_tolerance of exp(-i dt H) psi (C07's numerical clause) and "
        f"that H*v is the dense Hamiltonian (C06); both enter C01_sv_run_error_bound as the premise good_step and are "
        f"validated end to end with tolerance {FLOOR} + {SAFETY}*steps*krylov_tolerance",
        "for real sequences the per-step drive table and the target times are taken from the adapter (C21/C22); the "
        "interaction matrix is recomputed independently (C6/r^6, SLM mask)",
        "agreement with Pulser's own emulator cannot be checked (pulser-simulation not installed)",
        "a run that emu-sv refuses with RecursionError (Lanczos exponential not converged within max_krylov_dim) is outside "
        "'sequences emu-sv accepts': counted (evidence stiff_runs), not a violation; an ANSWERED run must meet the bound",
        "theorem premises: >= 1 step, n+1 target times, n rows per drive table, last target time non-zero "
        "(anything else: the machine returns the IndexError/ZeroDivisionError the code raises; covered by the "
        "correspondence)"]
    ctx.extra["not_proved"] = ["accuracy of krylov_exp per step", "time-discretisation error w.r.t. the continuous pulse"]


def replay(ctx, path):
    rp = json.load(open(path))
    if "case" not in rp:
        print("nothing to replay (broken obligation without a failing input)")
        return
    case = _deser(rp["case"])
    ctx.extra["e2e_worst"] = {}
    if case.get("kind") == "ownership":
        check_ownership(ctx, case)
        return
    if case["kind"] == "hand":
        errs, nsteps = run_hand(case), case["prob"]["steps"]
    else:
        errs, meta = run_seq(case)
        nsteps = meta["steps"]
    print("replay errors:", errs if errs is not None else "run refused (RecursionError)")
    if errs is not None:
        judge(ctx, case, errs, nsteps)


META = {
    "category": "proof",
    "technique": ("Coq proof of the emu-sv step loop (closed form of a run for every number of steps over a machine "
                  "with oracle kernels) + abstract error-accumulation lemma over R + exact trace correspondence; "
                  "dense-reference falsifier"),
    "text": ("Proved for every number of steps, every target-time list, drive table and every stepper / Hamiltonian "
             "constructor / interaction-matrix callable / evaluation-time predicate: a well-formed run raises nothing; "
             "its final state is the ordered fold of stepper((t[k+1]-t[k])*0.001, omega[k], delta[k], phi[k], U(t[k]), .) "
             "over the intervals, exactly one call per interval; the complete trace of kernel calls, callbacks and "
             "statistics is a closed form: callbacks at boundary k receive the state after exactly k stepper calls, "
             "time t[k]/t[n], and the Hamiltonian of interval k-1 (row 0 with U at the first midpoint for k = 0); the "
             "matrix is queried at interval starts. Abstractly (any normed space over R): if each step is eps_k-close "
             "to an isometry the result is within |psi|(prod(1+eps_k)-1) of the exact product, and this is instantiated "
             "on the run. NOT proved: that krylov_exp meets eps_k (validated end to end against a dense expm reference "
             "on hand-built data and real Pulser sequences, observables and amplitudes to 1e-6)."),
    "note": ("Trusted: Coq kernel+VM; the hand-written machine (validated by the trace correspondence on every run); "
             "stub faithfulness; numpy/scipy for the falsifier. Axioms: only the stdlib real-number axioms in the two "
             "theorems over R; the loop theorems are closed."),
}
