"""Independent dense reference for the neutral-atom Hamiltonian dynamics (falsifier oracle for
C01, C02, C09, C16, C25, C28, C29).  Written from the documented convention only, shares no code with /repo:

  H_ryd = sum_j (Omega_j/2) [cos(phi_j) sx_j + sin(phi_j) sy_j] - sum_j delta_j n_j + sum_{i<j} U_ij n_i n_j
  H_xy  = same single-atom terms + sum_{i<j} U_ij (s+_i s-_j + s-_i s+_j)

basis per atom (|g>, |r>) = (index 0, index 1); atom 0 is the most significant digit of the state index.
Times in ns, Omega/delta/U in rad/us: U(dt) = expm(-i H dt * 1e-3).
"""
from __future__ import annotations

import numpy as np
import scipy.linalg as sla

SX = np.array([[0, 1], [1, 0]], dtype=complex)
SY = np.array([[0, -1j], [1j, 0]], dtype=complex)
NN = np.array([[0, 0], [0, 1]], dtype=complex)
SP = np.array([[0, 0], [1, 0]], dtype=complex)  # |r><g|
ID = np.eye(2, dtype=complex)


def _embed(op, j, n):
    out = np.array([[1.0 + 0j]])
    for k in range(n):
        out = np.kron(out, op if k == j else ID)
    return out


def _embed2(op_i, i, op_j, j, n):
    out = np.array([[1.0 + 0j]])
    for k in range(n):
        out = np.kron(out, op_i if k == i else (op_j if k == j else ID))
    return out


def dense_H(omega, delta, phi, U, xy=False):
    n = len(omega)
    H = np.zeros((2 ** n, 2 ** n), dtype=complex)
    for j in range(n):
        H += 0.5 * omega[j] * (np.cos(phi[j]) * _embed(SX, j, n) + np.sin(phi[j]) * _embed(SY, j, n))
        H -= delta[j] * _embed(NN, j, n)
    for i in range(n):
        for j in range(i + 1, n):
            if U[i, j] == 0:
                continue
            if xy:
                H += U[i, j] * (_embed2(SP, i, SP.T, j, n) + _embed2(SP.T, i, SP, j, n))
            else:
                H += U[i, j] * _embed2(NN, i, NN, j, n)
    return H


def evolve(omega, delta, phi, U_of_t, times, xy=False, psi0=None, u_query="start"):
    """Piecewise-constant evolution; returns the list of states at times[0..].
    U_of_t(t): interaction matrix in force during the step (queried at its start or midpoint)."""
    n = omega.shape[1]
    psi = np.zeros(2 ** n, dtype=complex)
    psi[0] = 1.0
    if psi0 is not None:
        psi = np.array(psi0, dtype=complex)
    out = [psi.copy()]
    Hs = []
    for k in range(omega.shape[0]):
        t0, t1 = times[k], times[k + 1]
        tq = t0 if u_query == "start" else 0.5 * (t0 + t1)
        H = dense_H(omega[k].real, delta[k].real, phi[k].real, np.asarray(U_of_t(tq)), xy)
        psi = sla.expm(-1j * H * (t1 - t0) * 1e-3) @ psi
        out.append(psi.copy())
        Hs.append(H)
    return out, Hs


def occupation(psi, n):
    p = np.abs(psi) ** 2
    return np.array([sum(p[k] for k in range(2 ** n) if (k >> (n - 1 - j)) & 1) for j in range(n)])


def correlation(psi, n):
    p = np.abs(psi) ** 2
    c = np.zeros((n, n))
    for i in range(n):
        for j in range(n):
            c[i, j] = sum(p[k] for k in range(2 ** n) if (k >> (n - 1 - i)) & 1 and (k >> (n - 1 - j)) & 1)
    return c


def energy(psi, H):
    return float(np.real(np.vdot(psi, H @ psi)))


# ---- random hand-built SequenceData ------------------------------------------------------
def random_problem(rng, n, steps, dt=None, local=True, phases=True, scale=1.0, xy=False):
    """Smooth random per-atom drives (rad/us), interactions from random planar positions."""
    import torch

    dt = dt or rng.choice([5.0, 10.0, 20.0])
    times = [k * dt for k in range(steps + 1)]
    tt = (np.arange(steps) + 0.5) / steps

    def smooth(amp, positive=False):
        a, b, c = rng.uniform(-1, 1), rng.uniform(-1, 1), rng.uniform(0, 2 * np.pi)
        y = amp * (a * np.sin(np.pi * tt) + b * np.sin(2 * np.pi * tt + c))
        return np.abs(y) if positive else y

    omega = np.zeros((steps, n))
    delta = np.zeros((steps, n))
    phi = np.zeros((steps, n))
    base_o, base_d, base_p = smooth(6.0 * scale, True), smooth(8.0 * scale), smooth(2.0)
    for j in range(n):
        if local:
            omega[:, j] = smooth(6.0 * scale, True)
            delta[:, j] = smooth(8.0 * scale)
            phi[:, j] = smooth(2.0) if phases else 0.0
        else:
            omega[:, j], delta[:, j] = base_o, base_d
            phi[:, j] = base_p if phases else 0.0
    if phases and rng.random() < 0.4:
        # special phase values matter: sin(phi) = 0 with cos(phi) = -1 (phi = pi), echo-like 0 / pi patterns,
        # quarter turns.  Whole steps (all atoms) get exact multiples of pi/2.
        specials = [0.0, np.pi, -np.pi, np.pi / 2, -np.pi / 2, 2 * np.pi]
        mode = rng.choice(["all_pi", "echo", "per_step"])
        for k in range(steps):
            if mode == "all_pi":
                phi[k, :] = np.pi
            elif mode == "echo":
                phi[k, :] = 0.0 if k < steps // 2 else np.pi
            else:
                phi[k, :] = rng.choice(specials)
    if steps >= 3 and rng.random() < 0.35:
        # idle steps (delay between pulses): no drive at all, but the interactions keep acting
        for k in rng.sample(range(1, steps), rng.randint(1, min(3, steps - 1))):
            omega[k, :] = 0.0
            delta[k, :] = 0.0
    if steps >= 3 and rng.random() < 0.3:
        # plateaus: consecutive steps with bit-identical rows (constant pulses), optionally with only the detuning or
        # only the amplitude still varying (the sweep part of an adiabatic protocol)
        mode = rng.choice(["const", "delta_ramp", "omega_ramp", "phase_steps", "phase_steps"])
        k0 = rng.randrange(0, steps - 1)
        k1 = rng.randrange(k0 + 2, steps + 1)
        for k in range(k0 + 1, k1):
            if mode == "phase_steps":
                # back-to-back constant pulses that differ ONLY in phase (composite pulses, echo trains)
                omega[k] = omega[k0]
                delta[k] = delta[k0]
                phi[k, :] = rng.choice([0.0, np.pi / 2, np.pi, -np.pi / 2, rng.uniform(-3, 3)])
                continue
            phi[k] = phi[k0]
            if mode != "omega_ramp":
                omega[k] = omega[k0]
            if mode != "delta_ramp":
                delta[k] = delta[k0]
    pos = np.array([[rng.uniform(0, 4), rng.uniform(0, 4)] for _ in range(n)])
    for _ in range(200):  # keep atoms apart
        d = np.linalg.norm(pos[:, None] - pos[None], axis=-1) + np.eye(n) * 10
        if d.min() > 0.9:
            break
        pos = np.array([[rng.uniform(0, 4), rng.uniform(0, 4)] for _ in range(n)])
    d = np.linalg.norm(pos[:, None] - pos[None], axis=-1) + np.eye(n)
    U = (5.0 * scale / d ** (3 if xy else 6)) * (1 - np.eye(n))
    return dict(n=n, steps=steps, times=times, omega=omega, delta=delta, phi=phi, U=U, xy=xy)


def to_sequence_data(prob, lindblad_ops=(), bad_atoms=None, state_prep_error=0.0, U_of_t=None):
    import torch
    from emu_base.pulser_adapter import HamiltonianType, SequenceData

    n = prob["n"]
    U = torch.tensor(prob["U"], dtype=torch.float64)

    def interaction_matrix(t):
        if U_of_t is not None:
            return torch.tensor(np.asarray(U_of_t(t)), dtype=torch.float64)
        return U

    c = lambda a: torch.tensor(a, dtype=torch.complex128)  # noqa: E731
    return SequenceData(
        c(prob["omega"]), c(prob["delta"]), c(prob["phi"]), interaction_matrix,
        tuple(f"q{i}" for i in range(n)),
        tuple(bad_atoms) if bad_atoms is not None else tuple(False for _ in range(n)),
        list(lindblad_ops), state_prep_error, list(prob["times"]), ["r", "g"] if not prob["xy"] else ["u", "d"],
        HamiltonianType.XY if prob["xy"] else HamiltonianType.Rydberg)
