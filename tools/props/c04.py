"""C04 — backends reject what they cannot emulate instead of returning wrong results (DESIGN.md §4 C04).

Tie: SVBackendImpl.__init__ guards are re-extracted (fail closed) into coq/Gen/SvGuards.v and
create_impl / DMRGBackendImpl guard into coq/Gen/Dispatch.v (shared with C33) on every run; the
remaining hand-written stages of Model/Accepts.v are validated by an exhaustive correspondence:
every feature combination pulser lets one build is run for real and the outcome class compared.
"""
from __future__ import annotations

import ast
import itertools
import json
import logging
import traceback

from vlib import common
from props import c33
from props.c33 import Unsupported, EXC, EXC_INV, _fail, _err, _find_class, _find_def, _strip_doc

SV_SRC = common.REPO / "emu_sv/sv_backend_impl.py"
SVB_SRC = common.REPO / "emu_sv/sv_backend.py"
GEN = common.COQ / "Gen" / "SvGuards.v"

ATOMS = {
    "self._config.initial_state is not None": "has_init",
    "config.initial_state is not None": "has_init",
    "self._config.initial_state.n_qudits != self.nqubits": "init_mismatch",
    "config.initial_state.n_qudits != self.nqubits": "init_mismatch",
    "self._data.state_prep_error > 0.0": "prep_err",
    "data.state_prep_error > 0.0": "prep_err",
    "data.hamiltonian_type != HamiltonianType.Rydberg": "(negb is_rydberg)",
    "self._data.hamiltonian_type != HamiltonianType.Rydberg": "(negb is_rydberg)",
    "data.hamiltonian_type == HamiltonianType.Rydberg": "is_rydberg",
    "data.hamiltonian_type is not HamiltonianType.Rydberg": "(negb is_rydberg)",
    "data.hamiltonian_type is HamiltonianType.Rydberg": "is_rydberg",
    "data.dim != 2": "(negb dim2)",
    "sequence_data.dim != 2": "(negb dim2)",
    "sequence_data.hamiltonian_type != HamiltonianType.Rydberg": "(negb is_rydberg)",
    "sequence_data.hamiltonian_type is not HamiltonianType.Rydberg": "(negb is_rydberg)",
    "self._data.dim != 2": "(negb dim2)",
    "data.dim == 2": "dim2",
    "data.dim > 2": "(negb dim2)",
    "len(data.eigenstates) != 2": "(negb dim2)",
}
# statements of SVBackendImpl.__init__ that are allowed to contain an assert (assumed to hold:
# the harness passes an initial state of the right class)
ASSERT_OK = {"assert isinstance(config.initial_state, state_type)"}


def _cond(node):
    t = ast.unparse(node)
    if t in ATOMS:
        return ATOMS[t]
    if isinstance(node, ast.BoolOp):
        op = "andb" if isinstance(node.op, ast.And) else "orb"
        parts = [_cond(v) for v in node.values]
        out = parts[-1]
        for p in reversed(parts[:-1]):
            out = f"({op} {p} {out})"
        return out
    if isinstance(node, ast.UnaryOp) and isinstance(node.op, ast.Not):
        return f"(negb {_cond(node.operand)})"
    _fail(node, "(guard condition outside the known vocabulary)")


def extract_sv_run_guards(tree):
    """Guards of SVBackend._run_from_sequence_data placed before the implementation is constructed."""
    fn = _find_def(_find_class(tree, "SVBackend").body, "_run_from_sequence_data")
    if [a.arg for a in fn.args.args] != ["sequence_data", "config"]:
        _fail(fn)
    body = _strip_doc(fn.body)
    lines = []
    while body and isinstance(body[0], ast.If):
        s = body[0]
        if s.orelse or len(s.body) != 1 or not isinstance(s.body[0], ast.Raise):
            _fail(s)
        exc = s.body[0].exc
        name = exc.func.id if isinstance(exc, ast.Call) and isinstance(exc.func, ast.Name) else None
        if name not in EXC:
            _fail(s.body[0])
        lines.append(f"if {_cond(s.test)} then {_err(name, s.body[0])} else")
        body = body[1:]
    if [ast.unparse(x) for x in body] != ["impl = SVBackendImpl(config, sequence_data)", "return impl._run()"]:
        _fail(fn, "(expected `impl = SVBackendImpl(config, sequence_data); return impl._run()` after the guards)")
    return lines


def extract_sv_guards(tree, lines=()):
    fn = _find_def(_find_class(tree, "SVBackendImpl").body, "__init__")
    if [a.arg for a in fn.args.args] != ["self", "config", "data"]:
        _fail(fn)
    lines = list(lines)
    for s in _strip_doc(fn.body):
        if (isinstance(s, ast.If) and not s.orelse and len(s.body) == 1 and isinstance(s.body[0], ast.Raise)):
            exc = s.body[0].exc
            name = exc.func.id if isinstance(exc, ast.Call) and isinstance(exc.func, ast.Name) else None
            if name not in EXC:
                _fail(s.body[0])
            lines.append(f"if {_cond(s.test)} then {_err(name, s.body[0])} else")
            continue
        for n in ast.walk(s):
            if isinstance(n, ast.Raise):
                _fail(n, "(raise outside a top-level `if cond: raise`)")
            if isinstance(n, ast.Assert) and ast.unparse(n) not in ASSERT_OK:
                _fail(n, "(assert with unknown meaning)")
    return ("Definition sv_init_guards (has_init init_mismatch prep_err is_rydberg dim2 : bool) : res unit :=\n  "
            + "\n  ".join(lines) + "\n  Ok tt.\n")


def gen():
    out = c33.gen_dispatch()  # Gen/Dispatch.v: create_impl, dmrg_init_guard
    tree = ast.parse(SV_SRC.read_text())
    text = ("(* GENERATED by tools/props/c04.py from emu_sv/sv_backend.py (_run_from_sequence_data) and emu_sv/sv_backend_impl.py (SVBackendImpl.__init__); do not edit. *)\n"
            "From Coq Require Import ZArith Bool.\nFrom EV Require Import Base.Arith.\n\n"
            "(* the `if cond: raise X` guards of the constructor, in source order *)\n"
            + extract_sv_guards(tree, extract_sv_run_guards(ast.parse(SVB_SRC.read_text()))))
    return out + [(GEN, text)]


# ------------------------------------------------------------------------------------------
# feature domain and real-code driver
# ------------------------------------------------------------------------------------------
CHANS = ["ryd", "xy", "dig", "both", "ryd+idle", "ryd+det", "ryd+phase", "xy+idle"]
EFFS = ["none", "eff2", "eff3"]
COQ_CHAN = {"ryd": "ChRyd", "xy": "ChXY", "dig": "ChDig", "both": "ChBoth", "ryd+idle": "ChRydIdle",
            "ryd+det": "ChRydDet", "ryd+phase": "ChRydPhase", "xy+idle": "ChXYIdle"}
COQ_EFF = {"none": "EffNone", "eff2": "Eff2", "eff3": "Eff3"}
BOOLS = ["leak", "relax", "deph", "hyper", "depol", "prep", "other", "dmrg", "init"]
_SEQS = {}


def seq_for(chan):
    from pulser import Sequence, Register, Pulse
    from pulser.devices import MockDevice

    if chan in _SEQS:
        return _SEQS[chan]
    reg = Register.from_coordinates([(0.0, 0.0), (7.0, 0.0)], prefix="q")
    seq = Sequence(reg, MockDevice)
    pulse = Pulse.ConstantPulse(40, 3.0, 0.0, 0.0)
    if chan == "xy":
        seq.declare_channel("ch", "mw_global")
        seq.add(pulse, "ch")
    elif chan == "xy+idle":  # only a delay: no basis is "used", the Hamiltonian still is the XY exchange
        seq.declare_channel("ch", "mw_global")
        seq.delay(40, "ch")
    elif chan == "ryd":
        seq.declare_channel("ch", "rydberg_global")
        seq.add(pulse, "ch")
    elif chan == "dig":
        seq.declare_channel("ch", "raman_local", initial_target="q0")
        seq.add(pulse, "ch")
    else:
        seq.declare_channel("ch", "rydberg_global")
        seq.add(pulse, "ch")
        seq.declare_channel("ch2", "raman_local", initial_target="q0")
        if chan == "both":
            seq.add(pulse, "ch2")
        elif chan == "ryd+det":      # zero amplitude, non-zero detuning: pulser counts the channel as used
            seq.add(Pulse.ConstantPulse(40, 0.0, 1.5, 0.0), "ch2")
        elif chan == "ryd+phase":    # zero amplitude, zero detuning, phase only: unused for pulser
            seq.add(Pulse.ConstantPulse(40, 0.0, 0.0, 1.0), "ch2")
        # "ryd+idle": declared, never played
    _SEQS[chan] = seq
    return seq


_BASES = {}


def pulser_bases(chan):
    """The bases pulser's Hamiltonian involves for the sequence (sampled `used_bases`)."""
    from pulser.sampler import sample
    import warnings

    if chan not in _BASES:
        with warnings.catch_warnings():
            warnings.simplefilter("ignore")
            _BASES[chan] = frozenset(sample(seq_for(chan)).used_bases)
    return _BASES[chan]


def noise_for(f):
    import numpy as np
    from pulser.noise_model import NoiseModel

    kw = {}
    if f["relax"]:
        kw.update(relaxation_rate=0.1)
    if f["deph"]:
        kw.update(dephasing_rate=0.1)
    if f["hyper"]:
        kw.update(hyperfine_dephasing_rate=0.1)
    if f["depol"]:
        kw.update(depolarizing_rate=0.1)
    if f["eff"] == "eff2":
        kw.update(eff_noise_rates=(0.1,), eff_noise_opers=(np.array([[0.0, 1.0], [0.0, 0.0]]),))
    elif f["eff"] == "eff3" or f["leak"]:
        kw.update(eff_noise_rates=(0.1,), eff_noise_opers=(np.diag([0.0, 0.0, 1.0]),))
    if f["leak"]:
        kw.update(with_leakage=True)
    if f["prep"]:
        kw.update(state_prep_error=1e-9)  # > 0 but no atom is ever badly prepared: deterministic outcome
    if f["other"]:
        kw.update(amp_sigma=0.05)
    return NoiseModel(**kw)


def _in_pulser(ex) -> bool:
    tb = traceback.extract_tb(ex.__traceback__)
    return bool(tb) and "/pulser/" in tb[-1].filename


def impl_run(f, want_values=False):
    """Run the REAL backend end to end; outcome class = 'Results' or the exception class.
    Combinations refused by pulser itself (NoiseModel / HamiltonianData / state constructors of the
    user-facing API before the backend is involved) are reported as 'unbuildable'."""
    import warnings
    from pulser.backend import Occupation, Results
    from emu_base import PulserData
    from emu_sv import SVConfig, SVBackend, StateVector, DensityMatrix
    from emu_mps import MPSConfig, MPSBackend, MPS
    from emu_mps.solver import Solver

    with warnings.catch_warnings():
        warnings.simplefilter("ignore")
        try:
            nm = noise_for(f)
        except Exception as ex:
            return {"outcome": "unbuildable", "why": f"NoiseModel: {type(ex).__name__}"}
        seq = seq_for(f["chan"])
        obs = [Occupation(evaluation_times=[1.0])]

        def mk(init=None):
            kw = dict(observables=obs, noise_model=nm, log_level=logging.CRITICAL)
            if init is not None:
                kw["initial_state"] = init
            if f["be"] == "sv":
                return SVConfig(**kw)
            member = Solver.DMRG if f["dmrg"] else Solver.TDVP
            as_string = sum(bool(f[k]) for k in BOOLS) % 2 == 1  # both spellings of the solver are exercised
            return MPSConfig(optimize_qubit_ordering=False, solver=member.value if as_string else member, **kw)

        cfg = mk()
        if f["init"]:
            try:
                pd = PulserData(sequence=seq, config=cfg, dt=cfg.dt)
                eigs = tuple(pd.eigenstates)
                cls = MPS if f["be"] == "mps" else (DensityMatrix if pd.lindblad_ops else StateVector)
                cfg = mk(cls.from_state_amplitudes(eigenstates=eigs, amplitudes={eigs[1] * 2: 1.0}))
            except Exception as ex:
                return {"outcome": "unbuildable", "why": f"initial state: {type(ex).__name__}"}
        B = SVBackend if f["be"] == "sv" else MPSBackend
        try:
            r = B(seq, config=cfg).run()
        except Exception as ex:
            if _in_pulser(ex):
                return {"outcome": "unbuildable", "why": f"pulser: {type(ex).__name__}: {str(ex)[:60]}"}
            return {"outcome": type(ex).__name__, "msg": str(ex)[:90]}
        if not isinstance(r, Results):
            return {"outcome": "not-Results:" + type(r).__name__}
        out = {"outcome": "Results"}
        if want_values:
            out["occupation"] = [float(x) for x in r.occupation[-1]]
        return out


_INTER = {}


def pulser_interaction(chan):
    """pulser's interaction type ('ising' / 'XY') for the sequence."""
    import warnings
    from pulser._hamiltonian_data import HamiltonianData

    if chan not in _INTER:
        with warnings.catch_warnings():
            warnings.simplefilter("ignore")
            _INTER[chan] = HamiltonianData.from_sequence(seq_for(chan)).basis_data.interaction_type
    return _INTER[chan]


def supported_py(f) -> bool:
    """The specification table (mirrors Model.Accepts.supported; cross-checked against it)."""
    if f["hyper"] or (f["init"] and f["prep"]):
        return False
    used = pulser_bases(f["chan"])  # ask pulser which bases the Hamiltonian of this sequence involves
    if pulser_interaction(f["chan"]) == "XY":
        used = frozenset({"XY"})  # an idle mw_global sequence uses no basis but evolves under the XY exchange
    dim = len(used) + 1 + (1 if f["leak"] else 0)
    shapes = {"eff2": [2], "eff3": [3], "none": [3] if f["leak"] else []}[f["eff"]]
    if f["be"] == "sv":
        return used == {"ground-rydberg"} and not f["leak"] and f["eff"] != "eff3"
    noise = any(f[k] for k in ("leak", "relax", "deph", "hyper", "depol", "prep", "other")) or f["eff"] != "none"
    return (used in ({"ground-rydberg"}, {"XY"}) and all(s == dim for s in shapes)
            and not (f["dmrg"] and noise))


def feat_coq(f):
    b = lambda k: "true" if f[k] else "false"  # noqa: E731
    return (f"(mkFeat {COQ_CHAN[f['chan']]} {b('leak')} {b('relax')} {b('deph')} {b('hyper')} {b('depol')} "
            f"{COQ_EFF[f['eff']]} {b('prep')} {b('other')} {b('dmrg')} {b('init')})")


def domain(ctx):
    """quick: at most one Lindbladian noise kind at a time; thorough: all combinations."""
    out = []
    for be in ("sv", "mps"):
        for chan, eff in itertools.product(CHANS, EFFS):
            for bits in itertools.product([False, True], repeat=len(BOOLS)):
                f = dict(zip(BOOLS, bits), be=be, chan=chan, eff=eff)
                if be == "sv" and f["dmrg"]:
                    continue
                if chan == "xy+idle" and f["leak"]:
                    # pulser-core 1.9.1 bug (third party): HamiltonianData.from_sequence on a mw_global sequence with no
                    # used basis and with_leakage=True appends 'x' to a shared eigenbasis, after which EVERY XY
                    # sequence of the process reports 3 levels.  Not run, so that it cannot poison the other cases.
                    continue
                n_l = sum(f[k] for k in ("relax", "deph", "hyper", "depol")) + (eff != "none")
                if not ctx.thorough() and n_l > 1:
                    continue
                # sequences with a second basis are decided before most features matter: quick keeps the
                # combinations with at most two features switched on, thorough keeps all
                if (not ctx.thorough() and chan not in ("ryd", "xy", "xy+idle")
                        and sum(f[k] for k in BOOLS) + (eff != "none") > 2):
                    continue
                out.append(f)
    return out


def finding_key(f):
    if f["chan"] in ("dig", "both", "ryd+idle", "ryd+det", "ryd+phase"):
        return "multi-basis-sequence-accepted"
    if f["be"] == "sv" and f["chan"] == "xy":
        return "sv-accepts-xy"
    if f["be"] == "mps" and f["dmrg"]:
        return "dmrg-noise-not-refused"
    return "accepts-unsupported"


def oracle(ctx, f, r):
    if r["outcome"] == "Results" and not supported_py(f):
        extra = {}
        if finding_key(f) == "sv-accepts-xy":
            # show which Hamiltonian was emulated: same numbers as the Rydberg channel, not emu-mps' XY
            ryd = impl_run(dict(f, chan="ryd"), want_values=True)
            me = impl_run(f, want_values=True)
            mps = impl_run(dict(f, be="mps", dmrg=False), want_values=True)
            extra = {"sv_on_xy_sequence": me.get("occupation"), "sv_on_same_pulse_rydberg_channel": ryd.get("occupation"),
                     "emu_mps_on_xy_sequence": mps.get("occupation")}
        ctx.violation(f"{'emu-sv' if f['be'] == 'sv' else 'emu-mps'} returned Results for an unsupported combination "
                      f"{ {k: v for k, v in f.items() if v and k != 'be'} }",
                      {"case": f, "impl": r, "finding_key": finding_key(f), **extra})
    if r["outcome"].startswith("not-Results"):
        ctx.violation("run() returned something that is not a Results object",
                      {"case": f, "impl": r, "finding_key": "returns-non-results"})


def corpus_cases():
    p = common.VERIF / "corpus" / "C04.json"
    return json.loads(p.read_text()) if p.exists() else []


HEADER = """From Coq Require Import ZArith List String Bool.
Import ListNotations.
From EV Require Import Base.Arith Gen.Dispatch Gen.SvGuards Model.DispatchModel Model.Accepts."""
REQ_CLOSED = HEADER + "\nFrom EV Require Import Properties.C04."


def run(ctx):
    import warnings
    from vlib.coqparse import parse

    warnings.simplefilter("ignore")
    gen_ok = True
    try:
        for path, text in gen():
            common.write_if_changed(path, text)
        ctx.obligation("translate:sv_backend_impl.py->Gen/SvGuards.v,mps_backend_impl.py->Gen/Dispatch.v", True,
                       kind="translator")
    except (Unsupported, SyntaxError, OSError) as ex:
        ctx.obligation("translate:sv_backend_impl.py->Gen/SvGuards.v,mps_backend_impl.py->Gen/Dispatch.v", False,
                       str(ex), kind="translator")
        gen_ok = False
    model_ok = False
    if gen_ok:
        rc, out = common.coq_make(["Model/Accepts.vo"])
        model_ok = rc == 0
        if not model_ok:
            ctx.obligation("build:Model/Accepts.vo", False, out, kind="build")
        if common.standard_proof_stage(ctx, "C04", ["Properties/C04.vo"]):
            for b in ("SV", "MPS"):
                c33.closed_theorem(
                    ctx, f"C04_closed_{b}", REQ_CLOSED, f"C04_accept_implies_supported_{b}",
                    f"forall f, accepts {b} f = true -> supported {b} f = true",
                    f"C04_accept_implies_supported_if_table {b} (eq_refl : table_ok_for {b} = true)")

    # ---- every feature combination on the real code
    cases = [dict(c) for c in corpus_cases()]
    seen = {json.dumps(c, sort_keys=True) for c in cases}
    for f in domain(ctx):
        if json.dumps(f, sort_keys=True) not in seen:
            cases.append(f)
    impl = []
    for f in cases:
        r = impl_run(f)
        impl.append(r)
        oracle(ctx, f, r)
    c33._restore_logging()

    # ---- correspondence: outcome class (exact), spec table python == Coq
    corr_ok, detail = model_ok, "" if model_ok else "model did not build"
    spec_ok, sdetail = model_ok, "" if model_ok else "model did not build"
    if model_ok:
        try:
            ev = common.CoqEval("C04", HEADER)
            B = 24
            for i in range(0, len(cases), B):
                ev.add("[" + "; ".join(
                    f"(decide {'SV' if f['be'] == 'sv' else 'MPS'} {feat_coq(f)}, "
                    f"supported {'SV' if f['be'] == 'sv' else 'MPS'} {feat_coq(f)})" for f in cases[i:i + B]) + "]")
            vals = [v for o in ev.run() for v in parse(o)]
            hist = {}
            for f, r, (d, sup) in zip(cases, impl, vals):
                m = "Results" if (isinstance(d, tuple) and d[0] == "Ok") else EXC_INV.get(d[1] // 100000, str(d))
                key = f"{f['be']}/{r['outcome']}" + (f":{r['why'].split(':')[0]}" if r["outcome"] == "unbuildable" else "")
                hist[key] = hist.get(key, 0) + 1
                if sup != supported_py(f) and spec_ok:
                    spec_ok, sdetail = False, f"case={f} coq={sup} python={supported_py(f)}"
                if r["outcome"] == "unbuildable":
                    continue
                if m != r["outcome"] and corr_ok:
                    corr_ok, detail = False, f"case={f} impl={r} model={m}"
                    ctx.extra["first_disagreement"] = {"case": f, "impl": r, "model": m}
            ctx.extra["input_distribution"] = dict(sorted(hist.items()))
        except (common.CoqEvalError, ValueError, KeyError, TypeError) as ex:
            corr_ok = spec_ok = False
            detail = sdetail = str(ex)
    for f, r in zip(cases, impl):  # counted whether or not the model could be built
        if r["outcome"] != "unbuildable":
            ctx.count_case(f, r["outcome"] != "Results" or any(f[k] for k in BOOLS) or f["eff"] != "none")
    ctx.obligation("correspondence:Model.Accepts.decide==Backend(seq,config).run() outcome class (Results or exception "
                   "class), every buildable feature combination", corr_ok, detail, kind="correspondence")
    ctx.obligation("correspondence:Model.Accepts.supported==specification table used by the falsifier", spec_ok,
                   sdetail, kind="correspondence")
    ctx.rule = ("full product of channel basis (rydberg_global, mw_global, raman, rydberg+raman with the raman channel driven / "
                "idle / zero-amplitude detuning-only / phase-only) x leakage x "
                "{relaxation, dephasing, hyperfine dephasing, depolarizing} x effective operators (none, 2x2, 3x3) x "
                "state_prep_error x amplitude noise x solver x initial state x backend on a 2-atom MockDevice sequence "
                "(quick: at most one Lindbladian kind at a time); combinations pulser itself refuses are counted as "
                "unbuildable and excluded; non-trivial = any feature on or rejected")
    ctx.trusted_base += ["ast extractors in tools/props/c04.py, c33.py (fail closed)",
                         "hand-written stages of Model/Accepts.v (lindblad_stage, channel_stage, emu-sv run-time "
                         "shape assertion, MPS init guard): validated by the exhaustive correspondence only"]
    ctx.assumptions += ["2-atom register, one constant pulse; outcome class is assumed independent of pulse shape "
                        "and register size (>= 2 atoms)",
                        "mw_global-idle x leakage is not run: it triggers a global-state bug of pulser-core 1.9.1 (all later XY "
                        "sequences of the process get 3 levels); the Coq table still covers it",
                        "state_prep_error = 1e-9 so that no atom is actually badly prepared (F-13 is C-other)",
                        "emu-sv's rejection of 3-level Lindblad operators is an `assert` (vanishes under python -O)"]


def replay(ctx, path):
    rp = json.loads(open(path).read())
    f = rp["case"]
    r = impl_run(f, want_values=True)
    print("replay:", f, "->", r, "supported:", supported_py(f))
    oracle(ctx, f, r)


META = {
    "category": "proof",
    "technique": ("Coq decision-table model (SV constructor guards, emu-mps dispatcher and DMRG guard regenerated "
                  "from source; adapter stages hand-written) + whole-domain reflection proof + exhaustive "
                  "correspondence of outcome classes with real Backend.run()"),
    "text": ("Proved over the whole 2 x 12288 feature domain: accepts b f = true -> supported b f = true, from a closed "
             "boolean table check evaluated by the Coq VM on the model regenerated from the current source; plus "
             "unconditional theorems that digital/mixed bases, hyperfine dephasing and wrongly-shaped effective "
             "operators are always rejected. Validated only: the model's outcome class equals the real run() outcome "
             "on every combination pulser lets one build (2-atom sequences)."),
    "note": ("Trusted: Coq kernel+VM, extractors, hand-written adapter stages (exhaustively compared), pulser's own "
             "refusals are outside the model. The feature domain is finite by construction; pulse shapes and "
             "register sizes are not features."),
}
