"""C26 — resuming from an autosave gives the same results as an uninterrupted run; the autosave file is removed
at the end (DESIGN.md §4 C26).

Tie: (T) the orchestration of run/resume/_run and the shape of __getstate__/__setstate__ are re-translated on every
run (Gen/ResumeFlow.v, fail closed) and three decidable checks are evaluated on them; (H) real crash/resume
correspondence: a fake clock bound to `emu_mps.mps_backend_impl.time` makes every progress() autosave; for EVERY
progress index k of small runs the run is aborted right after the k-th save, resumed with the real
`MPSBackend.resume`, and tags / times / values / atom_order are compared with the uninterrupted run."""
from __future__ import annotations

import json
import logging
import pathlib
import random as pyrandom

from vlib import common
from props import _c26_translate as tr
from props import _mps_runs as mr

BACKEND = common.REPO / "emu_mps/mps_backend.py"
IMPL = common.REPO / "emu_mps/mps_backend_impl.py"
GEN = common.COQ / "Gen" / "ResumeFlow.v"
HEADER = """From Coq Require Import List String.
Import ListNotations.
From EV Require Import Model.Fs Model.Resume Gen.ResumeFlow.
Open Scope string_scope."""
TOL = 1e-9
SKIP_TAGS = {"statistics"}  # wall-clock durations and RSS: legitimately different


def gen():
    text, _ = tr.translate(BACKEND.read_text(), IMPL.read_text())
    return [(GEN, text)]


# ---- running the real backend ---------------------------------------------------------------------
class ScriptedRandom:
    """Stand-in for the `random` module inside mps_backend_impl: a private, positionable stream."""

    def __init__(self, seed=None, state=None):
        self.r = pyrandom.Random(seed)
        if state is not None:
            self.r.setstate(state)
        self.calls = 0
        self.jumps = 0

    def uniform(self, a, b):
        self.calls += 1
        return self.r.uniform(a, b)

    def choices(self, *a, **k):
        self.calls += 1
        self.jumps += 1
        return self.r.choices(*a, **k)

    def __getattr__(self, k):
        return getattr(self.r, k)


class Abort(BaseException):
    pass


def make_config(case):
    import pulser
    from emu_mps import MPSConfig, Solver
    from pulser.backend import CorrelationMatrix, Energy, Occupation

    n_steps = case["steps"]
    times = [(i + 1) / n_steps for i in range(n_steps)]
    obs = [Occupation(evaluation_times=times), CorrelationMatrix(evaluation_times=times),
           Energy(evaluation_times=times)]
    kw = {}
    if case["noisy"]:
        kw["noise_model"] = pulser.NoiseModel(relaxation_rate=case.get("rate", 0.4),
                                              dephasing_rate=case.get("rate", 0.4))
    if case["solver"] == "dmrg":
        kw["solver"] = Solver.DMRG
    return MPSConfig(observables=obs, dt=10, autosave_dt=20, log_level=logging.ERROR,
                     optimize_qubit_ordering=case["perm"] is not None, **kw)


def make_seq(case):
    return mr.make_sequence(n_atoms=case["n"], duration=10 * case["steps"], amp=case.get("amp", 3.1),
                            det=case.get("det", 0.5), spacing=case.get("spacing", 7.0),
                            order=case.get("order"), local=case.get("local"))


def forced_perm(case):
    import torch

    return torch.tensor(case["perm"]) if isinstance(case["perm"], list) else None  # "auto": the real optimiser


def canon(results):
    """Results -> comparable plain data"""
    import torch

    out = {"atom_order": list(results.atom_order), "tags": {}}
    for tag in sorted(results.get_result_tags()):
        if tag in SKIP_TAGS:
            continue
        times = [float(t) for t in results.get_result_times(tag)]
        vals = []
        for t in results.get_result_times(tag):
            v = results.get_result(tag, t)
            v = torch.as_tensor(v).detach().to(torch.complex128).reshape(-1)
            vals.append([[float(x.real), float(x.imag)] for x in v])
        out["tags"][tag] = {"times": times, "values": vals}
    return out


def max_diff(a, b):
    """None when the structure differs, else the largest absolute difference of any value"""
    if a["atom_order"] != b["atom_order"] or sorted(a["tags"]) != sorted(b["tags"]):
        return None
    d = 0.0
    for tag in a["tags"]:
        ta, tb = a["tags"][tag], b["tags"][tag]
        if len(ta["times"]) != len(tb["times"]) or any(abs(x - y) > 1e-12 for x, y in zip(ta["times"], tb["times"])):
            return None
        for va, vb in zip(ta["values"], tb["values"]):
            if len(va) != len(vb):
                return None
            for (xr, xi), (yr, yi) in zip(va, vb):
                d = max(d, abs(xr - yr), abs(xi - yi))
    return d


def tree(d):
    """every file below d, relative"""
    return sorted(str(p.relative_to(d)) for p in d.rglob("*") if p.is_file())


def run_case(case, abort_after=None, seed_on_resume=None, move=None):
    """Run the real backend in a scratch directory with a fake clock (every progress() autosaves).
    abort_after=None: uninterrupted; returns results and the number of saves.
    abort_after=k: raise out of the k-th save right after it completed, then MPSBackend.resume(file).
    move: None = resume in place; "keep" = the autosave file is first moved to another directory under another
    name (original directory kept); "delete" = same and the original directory is deleted."""
    import os
    import shutil

    import emu_mps.mps_backend_impl as im
    import emu_mps.optimatrix as optimat
    from emu_mps import MPSBackend

    mr.quiet()
    import torch

    torch.set_num_threads(1)
    cfg = make_config(case)
    seq = make_seq(case)
    perm = forced_perm(case)
    saves = {"n": 0, "file": None, "rng_state": None, "progress": []}
    orig_save = im.MPSBackendImpl.save_simulation
    rng = ScriptedRandom(seed=case.get("seed", 1))

    def save_wrapper(self):
        before = self.last_save_time
        orig_save(self)
        saves["written"] = saves.get("written", 0) + (1 if self.last_save_time != before else 0)
        saves["n"] += 1
        saves["file"] = self.autosave_file
        saves["progress"].append([self._timestep_index, self._sweep_index, self._swipe_direction.name])
        saves["perm_used"] = [int(x) for x in self.qubit_permutation]
        if abort_after is not None and saves["n"] == abort_after:
            saves["rng_state"] = rng.r.getstate()
            raise Abort()

    out = {"aborted": False, "resumed": False}
    with mr.scratch_dir("c26") as d:
        (d / "orig").mkdir()
        os.chdir(d / "orig")  # the autosave file is created in the cwd of the interrupted run
        binds = dict(time=mr.FakeClock(), random=rng)
        with mr.rebound(im, **binds), mr.rebound(im.MPSBackendImpl, save_simulation=save_wrapper), \
                mr.rebound(optimat, **({"minimize_bandwidth": (lambda m: perm.clone())} if perm is not None else {})):
            try:
                res = MPSBackend(seq, config=cfg).run()
            except Abort:
                out["aborted"] = True
                res = None
        out["saves"] = saves["n"]
        out["jumps"] = rng.jumps
        out["perm_used"] = saves.get("perm_used")
        out["progress"] = saves["progress"]
        os.chdir(d)
        out["files_after_run"] = tree(d)
        if out["aborted"]:
            f = saves["file"]
            out["autosave_present_after_crash"] = f.is_file()
            if move is not None and f.is_file():
                (d / "moved").mkdir()
                f = pathlib.Path(shutil.move(str(f), str(d / "moved" / "renamed_autosave.dat")))
                if move == "delete":
                    shutil.rmtree(d / "orig")
            out["resumed_from"] = str(f.relative_to(d))
            rng2 = ScriptedRandom(seed=seed_on_resume, state=None if seed_on_resume is not None else saves["rng_state"])
            saves["n"] = -10 ** 9  # no further abort
            saves["written"] = 0
            import emu_mps.mps_backend as mb

            clock = mr.FakeClock()  # also seen by resume(): last_save_time is on the same clock, autosaves fall due
            with mr.rebound(im, time=clock, random=rng2), mr.rebound(mb, time=clock), \
                    mr.rebound(im.MPSBackendImpl, save_simulation=save_wrapper):
                try:
                    res = MPSBackend.resume(f)
                    out["resumed"] = True
                except Exception as ex:  # noqa: BLE001
                    out["resume_error"] = f"{type(ex).__name__}: {str(ex)[:300]}"
                    res = None
            out["saves_during_resume"] = saves["written"]
            out["files_after_resume"] = tree(d)
        out["results"] = None if res is None else canon(res)
        return out


# ---- cases -------------------------------------------------------------------------------------------
def nonidentity_perms(n, rng):
    ps = {2: [[1, 0]], 3: [[2, 0, 1], [1, 2, 0], [1, 0, 2], [0, 2, 1]],
          4: [[2, 0, 3, 1], [3, 2, 1, 0], [1, 0, 2, 3], [1, 2, 0, 3]]}[n]
    return rng.choice(ps)


def gen_cases(ctx):
    cases = []
    rng = ctx.rng
    base = [
        {"n": 3, "steps": 2, "solver": "tdvp", "noisy": False, "perm": None},
        {"n": 3, "steps": 2, "solver": "tdvp", "noisy": False, "perm": [0, 1, 2]},
        {"n": 3, "steps": 2, "solver": "tdvp", "noisy": False, "perm": [2, 0, 1]},
        {"n": 2, "steps": 2, "solver": "tdvp", "noisy": False, "perm": [1, 0]},
        {"n": 3, "steps": 1, "solver": "dmrg", "noisy": False, "perm": None},
        {"n": 3, "steps": 2, "solver": "tdvp", "noisy": True, "perm": None, "seed": 1, "rate": 80.0},
        # per-atom (local) drives: omega/delta/phi columns differ, so the site <-> atom mapping matters
        {"n": 3, "steps": 2, "solver": "tdvp", "noisy": False, "perm": [2, 0, 1],
         "local": {"target": 0, "amp": 4.0, "det": -6.0, "phase": 0.7}},
        {"n": 4, "steps": 2, "solver": "tdvp", "noisy": False, "perm": "auto", "order": [0, 2, 3, 1],
         "local": {"target": 1, "amp": 5.0, "det": 3.0, "phase": 0.3}},
        {"n": 3, "steps": 2, "solver": "dmrg", "noisy": False, "perm": [1, 2, 0],
         "local": {"target": 2, "amp": 4.0, "det": -3.0, "phase": 0.0}},
        {"n": 3, "steps": 2, "solver": "tdvp", "noisy": True, "perm": [1, 2, 0], "seed": 2, "rate": 80.0,
         "local": {"target": 1, "amp": 4.0, "det": -6.0, "phase": 0.5}},
        {"n": 3, "steps": 2, "solver": "tdvp", "noisy": False, "perm": None,
         "local": {"target": 1, "amp": 4.0, "det": -6.0, "phase": 0.5}},
    ]
    cases += base
    for _ in range(ctx.n(7, 150)):
        n = rng.choice([2, 3, 4])
        solver = rng.choice(["tdvp", "tdvp", "dmrg"])
        noisy = solver == "tdvp" and rng.random() < 0.35
        pk = rng.choice(["off", "identity", "nonid", "nonid", "auto"])
        perm = None if pk == "off" else list(range(n)) if pk == "identity" else "auto" if pk == "auto" \
            else nonidentity_perms(n, rng)
        extra = {}
        if pk == "auto":
            order = list(range(n))
            while n > 2 and order == sorted(order):
                rng.shuffle(order)
            extra["order"] = order if n > 2 else [1, 0]
        if rng.random() < 0.6:
            extra["local"] = {"target": rng.randrange(n), "amp": round(rng.uniform(1.0, 6.0), 3),
                              "det": round(rng.uniform(-6.0, 6.0), 3), "phase": round(rng.uniform(0.0, 3.0), 3)}
        cases.append(extra | {"n": n, "steps": rng.choice([1, 2, 3]), "solver": solver, "noisy": noisy, "perm": perm,
                      "amp": round(rng.uniform(1.0, 6.0), 3), "det": round(rng.uniform(-2.0, 2.0), 3),
                      "spacing": round(rng.uniform(6.0, 9.0), 3), "seed": rng.randrange(1000),
                      "rate": round(rng.uniform(20.0, 100.0), 2)})
    return cases


def corpus_cases():
    p = common.VERIF / "corpus" / "C26.json"
    return json.loads(p.read_text()) if p.exists() else []


def check_case(ctx, case, ks=None, stats=None):
    """Uninterrupted run, then for every save index k: abort, resume, compare.  Returns False on the first
    property failure (reported)."""
    ref = run_case(case)
    if ref["results"] is None:
        raise RuntimeError(f"reference run failed: {case}")
    ok = True
    leftovers = [f for f in ref["files_after_run"]]
    if leftovers:
        ctx.violation(f"files left in the working directory after a normal finish: {leftovers}",
                      {"case": case, "k": None, "finding_key": "autosave-not-removed", "files": leftovers})
        ok = False
    n_saves = ref["saves"]
    if stats is not None and case["noisy"]:
        stats["quantum_jumps_in_reference_runs"] = stats.get("quantum_jumps_in_reference_runs", 0) + ref["jumps"]
    n_bad = 0
    for k in (ks if ks is not None else range(1, n_saves + 1)):
        r = run_case(case, abort_after=k)
        nontrivial = r["aborted"] and 0 < k < n_saves
        rec = {"case": case, "k": k, "of": n_saves,
               "progress": r["progress"][k - 1] if len(r["progress"]) >= k else None}
        ctx.count_case(rec, nontrivial)
        if stats is not None:
            pu = ref.get("perm_used") or []
            key = (f"{case['solver']}{'/noisy' if case['noisy'] else ''}/"
                   f"{'local' if case.get('local') else 'global'}/perm="
                   f"{'off' if case['perm'] is None else ('auto-' if case['perm'] == 'auto' else '') + ('id' if pu == sorted(pu) else 'nonid')}")
            stats[key] = stats.get(key, 0) + 1
        if not r["aborted"]:
            continue
        why = None
        key = "resumed-run-differs"
        if not r["resumed"]:
            why, key = f"MPSBackend.resume failed: {r.get('resume_error')}", "resume-fails"
        else:
            d = max_diff(ref["results"], r["results"])
            tol = TOL
            if d is None:
                if ref["results"]["atom_order"] != r["results"]["atom_order"]:
                    why = (f"atom_order after resume {r['results']['atom_order']} != uninterrupted "
                           f"{ref['results']['atom_order']}")
                    key = "resume-permute"
                else:
                    why = "result tags/times differ after resume"
            elif d > tol:
                why = f"values differ by {d:.3g} after resume"
            if why is None and r["files_after_resume"]:
                why, key = f"files left after the resumed run finished: {r['files_after_resume']}", "autosave-not-removed"
        if why:
            ok = False
            ctx.violation(f"resumed after save {k}/{n_saves} ({rec['progress']}): {why}",
                          {"case": case, "k": k, "finding_key": key, "uninterrupted": ref["results"],
                           "resumed": r["results"], "detail": why})
            if key == "resume-permute":
                break  # same cause at every k
            n_bad += 1
            if n_bad >= 3:
                break  # enough witnesses from this configuration
    # the autosave file is moved/renamed before resuming (original directory kept / deleted)
    if ks is None and n_saves >= 2:
        for mv in ("keep", "delete"):
            for k in [max(1, n_saves // 2)] if thorough_moves is False else range(1, n_saves):
                ok &= moved_check(ctx, case, k, mv, ref, stats)
    return ok


thorough_moves = False


def moved_check(ctx, case, k, mv, ref=None, stats=None) -> bool:
    ref = ref or run_case(case)
    r = run_case(case, abort_after=k, move=mv)
    if not r["aborted"]:
        return True
    ctx.count_case({"case": case, "k": k, "moved": mv, "saves_during_resume": r.get("saves_during_resume")}, True)
    if stats is not None:
        stats[f"moved/{mv}"] = stats.get(f"moved/{mv}", 0) + 1
        stats["autosaves_during_moved_resumes"] = stats.get("autosaves_during_moved_resumes", 0) + \
            (r.get("saves_during_resume") or 0)
    why, key = None, None
    if not r["resumed"]:
        why, key = f"MPSBackend.resume(moved file) failed: {r.get('resume_error')}", "resume-from-moved-file-fails"
    else:
        dd = max_diff(ref["results"], r["results"])
        if dd is None or dd > TOL:
            why, key = f"results differ after resuming from the moved file (max diff {dd})", "resumed-run-differs"
        elif r["files_after_resume"]:
            left = r["files_after_resume"]
            key = "resumed-file-not-removed"
            why = (f"after the resumed run finished the file it was resumed from ({r['resumed_from']}) "
                   f"{'is still there' if r['resumed_from'] in left else 'is gone'}; files left: {left}")
    if why:
        ctx.violation(f"autosave file moved ({mv} original directory) before resume after save {k}/{ref['saves']}: {why}",
                      {"case": case, "k": k, "moved": mv, "finding_key": key, "detail": why,
                       "files_after_resume": r.get("files_after_resume"), "resumed": r["results"]})
        return False
    return True


def loose_noisy_check(ctx, case):
    """A REAL crash loses Python's `random` state (it is not in the pickle): the resumed trajectory is another
    sample.  Only structural agreement and physical ranges are checked then."""
    ref = run_case(case)
    for k in range(1, ref["saves"] + 1, max(1, ref["saves"] // 3)):
        r = run_case(case, abort_after=k, seed_on_resume=977 + k)
        if not r["aborted"]:
            continue
        good = r["resumed"] and r["results"]["atom_order"] == ref["results"]["atom_order"] and \
            sorted(r["results"]["tags"]) == sorted(ref["results"]["tags"]) and \
            all(r["results"]["tags"][t]["times"] == ref["results"]["tags"][t]["times"] for t in ref["results"]["tags"]) and \
            all(-1e-9 <= x[0] <= 1 + 1e-9 for v in r["results"]["tags"]["occupation"]["values"] for x in v)
        ctx.count_case({"case": case, "k": k, "fresh_random_stream": True}, True)
        if not good:
            ctx.violation("noisy run resumed with a fresh random stream: structure/ranges of the results differ",
                          {"case": case, "k": k, "finding_key": "resume-noisy-structure", "resumed": r})


def run(ctx):
    from vlib.coqparse import parse

    info = None
    try:
        text, info = tr.translate(BACKEND.read_text(), IMPL.read_text())
        common.write_if_changed(GEN, text)
        ctx.obligation("translate:mps_backend.py+__getstate__/__setstate__->Gen/ResumeFlow.v", True,
                       json.dumps({k: info[k] for k in ("run_flow", "resume_flow", "run_tail", "get_over", "set_over")}),
                       kind="translator")
    except (tr.Unsupported, SyntaxError) as ex:
        ctx.obligation("translate:mps_backend.py+__getstate__/__setstate__->Gen/ResumeFlow.v", False,
                       f"unsupported construct: {ex}", kind="translator")
    if info is not None:
        rc, out = common.coq_make(["Gen/ResumeFlow.vo"])
        if rc != 0:
            ctx.obligation("build:Gen/ResumeFlow.vo", False, out, kind="build")
            info = None
    if info is not None:
        common.standard_proof_stage(ctx, "C26", ["Properties/C26.vo"])
        try:
            ev = common.CoqEval("C26", HEADER)
            ev.add("(pickle_ok step_reads get_over set_over (rebinds resume_flow), same_post run_flow resume_flow, "
                   "removes run_tail, file_rebound resume_flow)")
            pk, sp, rm, fr = parse(ev.run()[0])
            ctx.obligation("file_rebound resume_flow = true (vm_compute)", bool(fr),
                           "resume does not rebind impl.autosave_file to the path it was given between the load and the "
                           f"run: the resumed run autosaves to / removes the path recorded in the pickle: {info['resume_flow']}")
            ctx.extra["generated"] = info
            ctx.obligation("pickle_ok step_reads get_over set_over (rebinds resume_flow) = true (vm_compute)", bool(pk),
                           "a field read by the stepping is rebound by resume or transformed by __getstate__/__setstate__ "
                           f"outside the accepted round trips: get_over={info['get_over']} set_over={info['set_over']} "
                           f"resume_flow={info['resume_flow']}")
            ctx.obligation("same_post run_flow resume_flow = true (vm_compute)", bool(sp),
                           f"a normal run post-processes its results with {info['run_flow']} but resume with "
                           f"{info['resume_flow']}: permute_results is not applied the same number of times")
            ctx.obligation("removes run_tail = true (vm_compute)", bool(rm),
                           f"_run does not always remove the autosave file: {info['run_tail']}")
        except (common.CoqEvalError, ValueError) as ex:
            ctx.obligation("evaluate pickle_ok/same_post/removes", False, str(ex), kind="build")

    # ---- real crash/resume correspondence (also the falsifier)
    global thorough_moves
    thorough_moves = ctx.thorough()
    stats = {}
    for c in corpus_cases():
        check_case(ctx, c["case"], ks=[c["k"]] if c.get("k") else None, stats=stats)
    cases = gen_cases(ctx)
    n_ok = 0
    for c in cases:
        n_ok += 1 if check_case(ctx, c, stats=stats) else 0
    for c in [c for c in cases if c["noisy"]][: ctx.n(1, 5)]:
        loose_noisy_check(ctx, c)
    ctx.extra["input_distribution"] = stats
    ctx.extra["configurations"] = len(cases)
    ctx.extra["configurations_without_failure"] = n_ok
    ctx.rule = ("configurations: 2-4 atoms, 1-3 time steps, TDVP / DMRG / noisy TDVP (scripted random stream), qubit "
                "reordering off / forced identity / forced non-identity; for each, EVERY autosave index k (one per "
                "progress() call) is a crash point; a case is non-trivial when the run was really interrupted before its "
                "last unit of work; distinct by (configuration, k)")
    ctx.trusted_base += [
        "translator tools/props/_c26_translate.py (statement patterns; fail closed)",
        "premises of C26_resume_equals_run (stepping reads only the listed fields; pickle round trip of "
        "config/results/state is the identity) — validated by the real crash/resume runs, not proved",
    ]
    ctx.assumptions += [
        "the 'statistics' observable (wall-clock durations, RSS) is excluded from the comparison",
        f"noiseless and scripted-noisy runs are compared with tolerance {TOL}",
        "noisy runs: Python's `random` state is not in the pickle, so after a REAL crash the resumed trajectory is a "
        "different sample of the same distribution; 'same distribution' is checked as 'same stream => same results' "
        "(the random module of mps_backend_impl is rebound to a positionable stream) plus a structural/range check "
        "with a fresh stream",
        "crash = exception raised right after save_simulation returned (crashes inside save_simulation: C27)",
        "moved-file scenarios: the file is moved with shutil.move to <scratch>/moved/renamed_autosave.dat before resume",
    ]


def replay(ctx, path):
    rp = json.loads(open(path).read())
    if "case" not in rp:
        print("no concrete input in this replay:", rp.get("what"))
        ctx.violation(rp.get("what", "?"), {"broken": rp.get("broken")}, found_input=False)
        return
    c, k = rp["case"], rp.get("k")
    if rp.get("moved"):
        r = run_case(c, abort_after=k, move=rp["moved"])
        print("case:", c, "k:", k, "moved:", rp["moved"])
        print("resumed:", r["resumed"], r.get("resume_error"), "| resumed from:", r.get("resumed_from"),
              "| files left:", r.get("files_after_resume"), "| autosaves during resume:", r.get("saves_during_resume"))
        if moved_check(ctx, c, k, rp["moved"]):
            print("replay: property holds on this input now")
        return
    ref = run_case(c)
    print("case:", c, "k:", k)
    print("uninterrupted atom_order:", ref["results"]["atom_order"], "occupation:",
          [[round(x[0], 6) for x in v] for v in ref["results"]["tags"]["occupation"]["values"]])
    if k:
        r = run_case(c, abort_after=k)
        if r["results"]:
            print("resumed       atom_order:", r["results"]["atom_order"], "occupation:",
                  [[round(x[0], 6) for x in v] for v in r["results"]["tags"]["occupation"]["values"]])
        else:
            print("resume:", r.get("resume_error"))
    if check_case(ctx, c, ks=[k] if k else None):
        print("replay: property holds on this input now")


META = {
    "category": "proof",
    "technique": ("Coq proof over an abstract stepping machine with explicit locality/round-trip premises + flows and "
                  "pickling shape translated from the source on every run + real crash/resume correspondence at every "
                  "autosave index"),
    "text": ("Proved (all machines, all interruption points k, all continuations of the external random/clock inputs, "
             "by induction): if no field read by the stepping is rebound by resume or transformed by "
             "__getstate__/__setstate__ outside the accepted round trips (decidable check on generated lists) and both "
             "entry points apply permute_results equally often after the run (decidable check on the generated flows), "
             "the resumed run returns exactly the results of the uninterrupted run; the clean-up after the progress loop "
             "always removes the advertised file. Validated, not proved: the premises (progress() reads only instance "
             "fields; pickle round trip of config/results/state) by real abort/resume at every autosave index of small "
             "TDVP/DMRG/noisy runs with reordering off/identity/non-identity."),
    "note": ("Trusted: Coq kernel+VM, the statement-pattern translator, the locality premises. Statistics observable "
             "excluded; noisy runs compared under a scripted random stream (random state is not pickled)."),
}
