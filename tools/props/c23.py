"""C23 — interactions follow the register, cutoff, custom matrix and SLM schedule (DESIGN.md §4 C23).

Tie: (T) the source of `_InteractionMatrixCallable` is pinned by AST to the four-line function the model encodes
(fail closed); (H, exact) `PulserData.get_sequences` is run on arbitrary integer/dyadic matrices, packed and plain
trajectory matrices, user matrices, cutoffs, mask target lists and SLM end times and compared entry by entry
with Model/Interaction.v; real pulser sequences with `config_slm_mask` and a custom `interaction_matrix` go through
the real `PulserData.__init__`; both backends are run with a recording callable to get the times at which they
query the matrix."""
import ast
import inspect
import json
import textwrap
from types import SimpleNamespace

from vlib import common

PROP = "C23"
STALE = "trajectory-interaction-stale"
HEADER = """From Coq Require Import ZArith List.
Import ListNotations.
From EV Require Import Model.Interaction.
Open Scope Z_scope."""

CALLABLE_REFERENCE = '''
class _InteractionMatrixCallable:
    def __init__(self, full_matrix, masked_matrix, slm_end_time):
        self.full_matrix = full_matrix
        self.masked_matrix = masked_matrix
        self.slm_end_time = slm_end_time

    def __call__(self, t):
        if t < self.slm_end_time:
            return self.masked_matrix
        else:
            return self.full_matrix
'''


def _norm_class(src):
    """AST of a class with docstrings and annotations removed"""
    tree = ast.parse(textwrap.dedent(src))
    cls = tree.body[0]
    out = []
    for node in cls.body:
        if isinstance(node, ast.Expr) and isinstance(getattr(node, "value", None), ast.Constant):
            continue
        if isinstance(node, ast.FunctionDef):
            node.returns = None
            for a in node.args.args:
                a.annotation = None
            node.body = [b for b in node.body
                         if not (isinstance(b, ast.Expr) and isinstance(getattr(b, "value", None), ast.Constant))]
        out.append(ast.dump(node))
    return out


def ast_pin(ctx):
    from emu_base import pulser_adapter
    try:
        real = _norm_class(inspect.getsource(pulser_adapter._InteractionMatrixCallable))
        ref = _norm_class(CALLABLE_REFERENCE)
        ctx.obligation("translate:_InteractionMatrixCallable == Model.callable (AST pin)", real == ref,
                       f"source AST differs from the modelled function:\n{real}\nvs\n{ref}", kind="translator")
    except Exception as ex:  # noqa: BLE001
        ctx.obligation("translate:_InteractionMatrixCallable == Model.callable (AST pin)", False, repr(ex),
                       kind="translator")


# ---------------------------------------------------------------------------------------------------
# bulk correspondence through PulserData.get_sequences on a stand-in `self`
class _Arr:
    def __init__(self, t):
        self.t = t

    def as_tensor(self):
        return self.t


class _Reg:
    def __init__(self, ids):
        self.ids = list(ids)

    def find_indices(self, targets):
        return [self.ids.index(t) for t in targets]


def gen_case(rng, malformed=False):
    n = rng.choice([1, 2, 2, 3, 3, 4, 5, 6, 7])
    cutoff = rng.choice([0, 0, 1, 2, 3, 5, 8, 12])

    def entry():
        r = rng.random()
        if r < 0.25 and cutoff:
            return rng.choice([-1, 1]) * cutoff                    # exactly +-cutoff
        if r < 0.4 and cutoff:
            return rng.choice([-1, 1]) * (cutoff + rng.choice([-1, 1]))  # next to the cutoff
        return rng.randint(-12, 12)

    def sym(asym=False):
        m = [[0] * n for _ in range(n)]
        for i in range(n):
            for j in range(i + 1, n):
                m[i][j] = entry()
                m[j][i] = entry() if asym else m[i][j]
            if asym and rng.random() < 0.3:
                m[i][i] = entry()
        return m

    asym = malformed and rng.random() < 0.7
    traj_kind = rng.choice(["plain", "packed1", "packed2"])
    traj = [sym(asym)] if traj_kind != "packed2" else [sym(asym), sym(asym)]
    user = sym(asym) if rng.random() < 0.45 else None
    k = rng.randint(0, n)
    targets = rng.sample(range(n), k)
    if malformed and targets and rng.random() < 0.4:
        targets = targets + [rng.choice(targets)]                   # duplicates
    T = rng.choice([8, 16, 40])
    slm_end = rng.choice([0, 0, rng.randint(1, T - 1), T // 2, T, T + 5])
    ts = sorted({0, T, slm_end, slm_end - 1, slm_end + 1, rng.randint(0, T), rng.randint(-2, T + 8)})
    shift = rng.choice([0, 0, 1, 3, 10])                            # inputs scaled by 2**-shift (dyadic floats)
    # further noise trajectories, each with ITS OWN matrix (register noise: same bad_atoms, different positions) and
    # repetitions; bad-atom patterns equal to / different from the first trajectory's
    more = []
    if rng.random() < 0.45:
        for _ in range(rng.randint(1, 3)):
            more.append({"traj": [sym(asym)] if traj_kind != "packed2" else [sym(asym), sym(asym)],
                         "reps": rng.choice([1, 1, 2, 3]),
                         "bad": [rng.random() < 0.4 for _ in range(n)] if rng.random() < 0.4 else [False] * n})
    return {"n": n, "cutoff": cutoff, "traj_kind": traj_kind, "traj": traj, "user": user, "targets": targets,
            "slm_end": slm_end, "ts": ts, "shift": shift, "kind": "malformed" if malformed else "valid",
            "reps": rng.choice([1, 1, 1, 2]) if more else 1, "more": more}


def case_trajectories(case):
    """[(matrices, reps, bad atoms)] of the scripted noise trajectories of a stand-in case, and the index of the
    trajectory each yielded SequenceData must come from"""
    trajs = [(case["traj"], case.get("reps", 1), [False] * case["n"])]
    trajs += [(m["traj"], m["reps"], m["bad"]) for m in case.get("more", [])]
    owner = [i for i, (_, r, _) in enumerate(trajs) for _ in range(r)]
    return trajs, owner


_TEMPLATE = {}


def template_pulserdata():
    """a REAL PulserData (real __init__ on a real 2-atom SLM sequence whose mask pulse starts at t = 0); the bulk
    route overrides only the inputs of get_sequences that the model reads, so attributes the source may add keep
    the values the real constructor gives them"""
    if "pd" not in _TEMPLATE:
        from pulser.backend import EmulationConfig, BitStrings
        from emu_base.pulser_adapter import PulserData

        spec = {"n": 2, "spacing": 6.0, "xy": False, "targets": [0], "pulses": [16], "delay": 0, "local_first": False}
        cfg = EmulationConfig(observables=[BitStrings(evaluation_times=[1.0])], interaction_cutoff=0.0)
        _TEMPLATE["pd"] = PulserData(sequence=build_sequence(spec), config=cfg, dt=8)
    return _TEMPLATE["pd"]


def impl_run(case):
    """the REAL get_sequences + callable on the case's data; returns integer matrices per query time and the
    result of the no-mutation / no-aliasing checks"""
    import copy
    import torch
    from emu_base import pulser_adapter
    from emu_base.pulser_adapter import PulserData

    s = 2.0 ** (-case["shift"])
    n = case["n"]
    ids = [f"q{i}" for i in range(n)]
    tt = torch.tensor(case["traj"], dtype=torch.float64) * s
    if case["traj_kind"] == "plain":
        tt = tt[0]
    user = None if case["user"] is None else torch.tensor(case["user"], dtype=torch.float64) * s
    tt0, user0 = tt.clone(), None if user is None else user.clone()
    trajs, owner = case_trajectories(case)
    samples, tensors = [], [tt]
    for k, (mats_k, reps_k, bad_k) in enumerate(trajs):
        if k:
            tk = torch.tensor(mats_k, dtype=torch.float64) * s
            tk = tk[0] if case["traj_kind"] == "plain" else tk
            tensors.append(tk)
        samples.append(SimpleNamespace(
            trajectory=SimpleNamespace(interaction_matrix=_Arr(tensors[k]), bad_atoms=dict(zip(ids, bad_k))),
            samples=None, reps=reps_k))
    tensors0 = [t.clone() for t in tensors]
    stub = copy.copy(template_pulserdata())
    stub.hamiltonian = SimpleNamespace(noisy_samples=samples)
    stub.full_interaction_matrix = user
    stub.interaction_cutoff = case["cutoff"] * s
    stub._sequence = SimpleNamespace(_slm_mask_targets=[ids[i] for i in case["targets"]], register=_Reg(ids))
    stub.qubit_ids = tuple(ids)
    stub.qubit_count = n
    stub.slm_end_time = case["slm_end"] * s
    saved = pulser_adapter._extract_omega_delta_phi
    pulser_adapter._extract_omega_delta_phi = lambda *a, **k: (None, None, None)
    try:
        sds = list(PulserData.get_sequences(stub))
    finally:
        pulser_adapter._extract_omega_delta_phi = saved
    sd = sds[0]

    def mats_of(one):
        out = []
        for t in case["ts"]:
            m = one.interaction_matrix(t * s) / s
            out.append([[int(v) if float(v).is_integer() else float(v) for v in row] for row in m.tolist()])
        return out

    all_mats = [mats_of(one) for one in sds]      # one entry per yielded SequenceData
    mats = all_mats[0]
    bads = [[bool(b) for b in one.bad_atoms] for one in sds]
    call = sd.interaction_matrix
    unmutated = all(bool(torch.equal(a, b)) for a, b in zip(tensors, tensors0)) and \
        (user is None or bool(torch.equal(user, user0)))
    ptrs = {call.full_matrix.data_ptr(), call.masked_matrix.data_ptr(), tt.data_ptr()} | \
           ({user.data_ptr()} if user is not None else set())
    fresh = len(ptrs) == (4 if user is not None else 3)
    return {"mats": mats, "all_mats": all_mats, "bad_atoms": bads, "unmutated": unmutated, "fresh_storage": fresh}


def zmat(m):
    return "[" + "; ".join("[" + "; ".join(f"({int(v)})" for v in row) + "]" for row in m) + "]"


def model_expr(case):
    user = "None" if case["user"] is None else f"(Some {zmat(case['user'])})"
    def tm(mats):
        return f"(Plain {zmat(mats[0])})" if case["traj_kind"] == "plain" else \
            "(Packed [" + "; ".join(zmat(m) for m in mats) + "])"

    trajs = "[" + "; ".join(f"({tm(m)}, {r}%nat)" for m, r, _ in case_trajectories(case)[0]) + "]"
    targets = "[" + "; ".join(f"{t}%nat" for t in case["targets"]) + "]"
    ts = "[" + "; ".join(f"({t})" for t in case["ts"]) + "]"
    # one list per query time: the matrix of EVERY yielded SequenceData (trajectory k repeated reps_k times, in order)
    return (f"map (fun t => sequences_at {user} {trajs} ({case['cutoff']}) {targets} ({case['slm_end']}) t) {ts}")


def spec_oracle(M, src, cutoff, masked, t, slm_end):
    """the property on one returned matrix (exact comparisons); returns None or a description"""
    n = len(src)
    for i in range(n):
        for j in range(n):
            x = src[i][j]
            want = 0 if abs(x) < cutoff else x
            if t < slm_end and (i in masked or j in masked):
                want = 0
            if M[i][j] != want:
                return f"entry ({i},{j}) is {M[i][j]}, expected {want} (source {x}, cutoff {cutoff}, t={t}, slm_end={slm_end}, masked={sorted(masked)})"
    return None


# ---------------------------------------------------------------------------------------------------
# real sequences through PulserData.__init__, and backend query times
def build_sequence(spec):
    import pulser

    n = spec["n"]
    coords = spec.get("coords") or [(spec["spacing"] * (i % 3) + 0.3 * i, spec["spacing"] * (i // 3)) for i in range(n)]
    reg = pulser.Register({f"q{i}": c for i, c in enumerate(coords)})
    seq = pulser.Sequence(reg, pulser.MockDevice)
    if spec["xy"]:
        seq.declare_channel("ch", "mw_global")
    else:
        seq.declare_channel("ch", "rydberg_global")
    if spec["targets"]:
        seq.config_slm_mask([f"q{i}" for i in spec["targets"]])
    if spec.get("local_first") and not spec["xy"]:
        # a local-channel pulse before the first global pulse (on an atom that is not masked if there is one)
        free = [i for i in range(n) if i not in spec["targets"]] or [0]
        seq.declare_channel("loc", "rydberg_local", initial_target=f"q{free[0]}")
        seq.add(pulser.Pulse.ConstantPulse(12, 1.0, 0.0, 0.0), "loc")
    if spec.get("delay"):
        seq.delay(spec["delay"], "ch")   # the first global pulse (= the SLM pulse) starts at ti > 0
    for dur in spec["pulses"]:
        seq.add(pulser.Pulse.ConstantPulse(dur, 1.0, 0.0 if spec["xy"] else -1.0, 0.0), "ch")
    return seq


def gen_seq_spec(rng, small=False, late_mask=None):
    n = rng.choice([2, 3]) if small else rng.choice([2, 3, 4, 5])
    k = rng.randint(0, n - 1)
    late = (rng.random() < 0.5) if late_mask is None else late_mask
    xy = ((not small) and rng.random() < 0.3) if late_mask is None else (not small and rng.random() < 0.7)
    if late:
        k = max(k, 1)
    return {"n": n, "spacing": rng.choice([5.0, 6.0, 8.0]), "xy": xy,
            "targets": sorted(rng.sample(range(n), k)),
            "pulses": [rng.choice([16, 20, 32]) for _ in range(rng.choice([1, 2, 3]))],
            "delay": rng.choice([16, 24, 40]) if late else 0,
            "local_first": (not xy) and rng.random() < 0.3,
            "custom": rng.random() < 0.5, "cutoff": rng.choice([0.0, 0.0, 0.5, 2.0]),
            "dt": rng.choice([4, 8, 10])}


def gen_precision_spec(rng):
    """precision stream: generic (non-dyadic) float64 data — random positions (C6/r^6, C3/r^3), user matrices with
    gaussian entries, cutoffs that are generic floats (some equal to an entry's magnitude)"""
    spec = gen_seq_spec(rng, late_mask=rng.random() < 0.3)
    n = spec["n"]
    spec["coords"] = [(7.3 * (i % 3) + rng.uniform(-1.2, 1.2), 7.3 * (i // 3) + rng.uniform(-1.2, 1.2)) for i in range(n)]
    spec["custom"] = rng.random() < 0.5
    m = [[0.0] * n for _ in range(n)]
    for i in range(n):
        for j in range(i + 1, n):
            m[i][j] = m[j][i] = rng.gauss(0.0, 1.0) * 10 ** rng.uniform(-2, 2)
    spec["custom_matrix"] = m
    r = rng.random()
    if r < 0.3:
        spec["cutoff"] = 0.0
    elif r < 0.6 and n >= 2:
        spec["cutoff"] = abs(m[0][1])                    # exactly the magnitude of an entry (must be kept)
    else:
        spec["cutoff"] = 10 ** rng.uniform(-3, 1.5) * 1.2345678901234567
    spec["precision"] = True
    return spec


def custom_matrix(spec):
    if spec.get("custom_matrix"):
        return spec["custom_matrix"]
    n = spec["n"]
    m = [[0.0] * n for _ in range(n)]
    for i in range(n):
        for j in range(i + 1, n):
            v = ((7 * i + 3 * j) % 11 - 5) * 0.25      # includes negative entries and 0.5 = a cutoff value
            m[i][j] = m[j][i] = v
    return m


def run_pulserdata(ctx, spec):
    """real PulserData.__init__ + get_sequences on a real sequence; property oracle on floats"""
    import torch
    from pulser.backend import EmulationConfig, BitStrings
    from emu_base.pulser_adapter import PulserData

    seq = build_sequence(spec)
    kw = {}
    if spec["custom"]:
        kw["interaction_matrix"] = custom_matrix(spec)
    cfg = EmulationConfig(observables=[BitStrings(evaluation_times=[1.0])], interaction_cutoff=spec["cutoff"], **kw)
    try:
        pd = PulserData(sequence=seq, config=cfg, dt=spec["dt"])
    except AssertionError as ex:
        if not spec["custom"]:
            raise
        # C23: "comes from the user-supplied matrix if given" — the adapter refuses a valid N x N user matrix
        ctx.violation(f"PulserData rejects a valid {spec['n']}x{spec['n']} user interaction matrix "
                      f"(config.interaction_matrix has shape {tuple(cfg.interaction_matrix.as_tensor().shape)}): {ex}",
                      {"spec": spec, "finding_key": "custom-matrix-rejected", "kind": "pulserdata"})
        return None, False
    smt = list(seq._slm_mask_time)
    want_end = smt[1] if len(smt) > 1 else 0.0
    want_start = float(smt[0]) if len(smt) > 1 else 0.0
    problems = []
    got_end = getattr(pd, "slm_end_time", None)
    if got_end is not None and got_end != want_end:
        problems.append(("slm-end-time", f"slm_end_time={got_end}, sequence says {smt}"))
    if spec["targets"] and not spec.get("local_first"):
        # independent of pulser's bookkeeping: the mask ends with the first pulse of the global channel; for XY the
        # window starts with that pulse (ti = delay), with a DMM (ising) it starts at 0
        expect = [float(spec.get("delay", 0)) if spec["xy"] else 0.0, float(spec.get("delay", 0) + spec["pulses"][0])]
        if [float(x) for x in smt] != expect:
            problems.append(("slm-window", f"pulser reports the SLM window {smt}, the sequence was built with {expect}"))
    sds = list(pd.get_sequences())
    sample = next(iter(pd.hamiltonian.noisy_samples))
    traj = sample.trajectory.interaction_matrix.as_tensor()
    traj = traj[0] if traj.dim() == 3 else traj
    src = torch.tensor(custom_matrix(spec), dtype=torch.float64) if spec["custom"] else traj
    srcl = src.tolist()
    n = spec["n"]
    if any(srcl[i][j] != srcl[j][i] for i in range(n) for j in range(n)) or any(srcl[i][i] != 0 for i in range(n)):
        problems.append(("source-not-symmetric", "source matrix is not symmetric with zero diagonal"))
    if not spec["xy"] and not spec["custom"]:
        # independent of pulser's matrix: C6 / r^6 from the positions, in float64
        import pulser as _pulser
        c6 = float(_pulser.MockDevice.interaction_coeff)
        pos = build_sequence(spec).register.qubits
        ids = list(pos)
        for i in range(n):
            for j in range(n):
                if i != j:
                    d = pos[ids[i]].as_tensor() - pos[ids[j]].as_tensor()
                    want = c6 / float(torch.linalg.norm(d)) ** 6
                    # pulser 1.9.1 computes the distances with torch.cdist, which is only ~1e-7 accurate in float64
                    # (measured 4e-7 on C6/r^6); this is a sanity bound, the precision tie is the bit-for-bit
                    # comparison with pulser's own tensor below
                    if abs(srcl[i][j] - want) > 1e-5 * abs(want):
                        problems.append(("register-matrix-wrong",
                                         f"register entry ({i},{j}) = {srcl[i][j]!r}, C6/r^6 = {want!r}"))
    T = float(pd.target_times[-1])
    tt = [float(x) for x in pd.target_times]
    mids = [0.5 * (a + b) for a, b in zip(tt[:-1], tt[1:])]     # emu-mps queries mid(t0,t1); both query the t_k
    grid = {0.0, T, float(want_end), float(want_end) - 0.5, float(want_end) + 0.5, T / 3, want_start,
            want_start - 0.5, want_start / 2, want_start + 0.5, 0.5 * (want_start + float(want_end)), *tt, *mids}
    masked = set(spec["targets"])
    # pulser's sampler mutes the masked atoms from t = 0 (pulser/sampler/samples.py: `start_t = self._slm_mask.end
    # if in_xy else 0`, masked samples are dropped on [0, end)), so the mask applies for EVERY t < slm_end, also
    # before the first global pulse starts (t < ti)
    for t in sorted(x for x in grid if 0.0 <= x <= T):
        Mt = sds[0].interaction_matrix(t)
        if Mt.dtype != torch.float64:
            problems.append(("interaction-lost-precision", f"interaction_matrix({t}) has dtype {Mt.dtype}, not float64"))
            break
        M = Mt.tolist()
        bad = spec_oracle(M, srcl, spec["cutoff"], masked, t, float(want_end))
        if bad:
            unmasked_bad = spec_oracle(M, srcl, spec["cutoff"], set(), t, float(want_end)) is None
            close = all(abs(M[i][j] - (0 if (abs(srcl[i][j]) < spec["cutoff"] or (t < want_end and (i in masked or j in masked)))
                                       else srcl[i][j])) <= 1e-5 * abs(srcl[i][j]) for i in range(n) for j in range(n))
            if close:
                # masking and cutoff copy entries verbatim: a difference at the 1e-7 level is a lost-precision path
                problems.append(("interaction-lost-precision",
                                 f"entries are copied inexactly (float32 round trip?) at t={t}: {bad}"))
            elif t < want_start and masked and unmasked_bad:
                problems.append(("slm-mask-not-applied-before-start",
                                 f"at t={t} < ti={want_start} (SLM window {smt}) the FULL matrix is returned although "
                                 f"atoms {sorted(masked)} are masked until {want_end}: {bad}"))
            else:
                problems.append(("matrix-spec", bad))
            break
        if any(M[i][j] != M[j][i] for i in range(n) for j in range(n)) or any(M[i][i] != 0 for i in range(n)):
            problems.append(("not-symmetric", f"matrix at t={t} is not symmetric with zero diagonal"))
            break
    if not problems:
        # the matrix at time t must not depend on the history of queries: ask T first (emu-mps with qubit reordering
        # does so in its constructor), then the same times in DESCENDING order
        sds[0].interaction_matrix(T)
        for t in sorted((x for x in grid if 0.0 <= x <= T), reverse=True):
            bad = spec_oracle(sds[0].interaction_matrix(t).tolist(), srcl, spec["cutoff"], masked, t, float(want_end))
            if bad:
                problems.append(("matrix-depends-on-query-history",
                                 f"after a query at T={T} the matrix at t={t} is wrong: {bad}"))
                break
    for key, what in problems:
        ctx.violation(f"PulserData on a real sequence: {what}", {"spec": spec, "finding_key": key, "kind": "pulserdata"})
    return pd, not problems


QUERY_LOG = []
RecordingCallable = None   # built by make_recording(): a subclass of the CURRENT source class, any constructor signature


def make_recording():
    """a picklable (module-level name) subclass of pulser_adapter._InteractionMatrixCallable that logs the query times"""
    global RecordingCallable
    from emu_base import pulser_adapter

    base = pulser_adapter._InteractionMatrixCallable

    def __call__(self, t):
        QUERY_LOG.append(float(t))
        return base.__call__(self, t)

    RecordingCallable = type("RecordingCallable", (base,), {"__call__": __call__, "__module__": __name__})
    return RecordingCallable


def run_backends(ctx, spec):
    """run emu-mps and emu-sv on a real SLM sequence, recording the query times; compare with the model's
    formulas (evaluated on the floats) and with the property (query time of step k inside the step)"""
    from pulser.backend import BitStrings
    from emu_base import pulser_adapter
    import emu_mps
    import emu_sv

    seq = build_sequence(spec)
    kw = {"interaction_matrix": custom_matrix(spec)} if spec["custom"] else {}
    if kw:
        from pulser.backend import EmulationConfig
        try:
            pulser_adapter.PulserData(sequence=seq, dt=spec["dt"], config=EmulationConfig(
                observables=[BitStrings(evaluation_times=[1.0])], interaction_cutoff=spec["cutoff"], **kw))
        except AssertionError:
            kw = {}      # reported by run_pulserdata as custom-matrix-rejected; keep testing the query times
            spec = dict(spec, custom=False)
    ok, detail = True, ""
    for name in ("mps", "sv"):
        obs = [BitStrings(evaluation_times=[1.0], num_shots=10)]
        if name == "mps":
            cfg = emu_mps.MPSConfig(dt=spec["dt"], observables=obs, interaction_cutoff=spec["cutoff"],
                                    optimize_qubit_ordering=False, log_level=50, **kw)
            be = emu_mps.MPSBackend(seq, config=cfg)
        else:
            cfg = emu_sv.SVConfig(dt=spec["dt"], observables=obs, interaction_cutoff=spec["cutoff"], log_level=50,
                                  gpu=False, **kw)
            be = emu_sv.SVBackend(seq, config=cfg)
        saved = pulser_adapter._InteractionMatrixCallable
        rec_cls = make_recording()
        pulser_adapter._InteractionMatrixCallable = rec_cls
        del QUERY_LOG[:]
        try:
            be.run()
        finally:
            pulser_adapter._InteractionMatrixCallable = saved
        rec = list(QUERY_LOG)
        pd = pulser_adapter.PulserData(sequence=seq, config=cfg, dt=spec["dt"])
        times = [float(t) for t in pd.target_times]
        nsteps = len(times) - 1
        if name == "mps":   # Model.mps_query_trace_x2 / 2 on floats
            expect = [0.5 * (times[0] + times[1])] + [0.5 * (times[k] + times[k]) for k in range(1, nsteps + 1)]
            used = expect[:nsteps]
        else:               # Model.sv_query_trace_x2 / 2
            expect = [times[k] for k in range(nsteps)]
            used = expect
        ctx.count_case({"backend": name, "spec": spec, "queries": len(rec)}, True)
        if rec != expect and ok:
            ok, detail = False, f"{name}: recorded query times {rec} != model {expect} (spec {spec})"
        # property: before the SLM mask ends masked atoms do not interact: a step that STARTS before slm_end must
        # use the masked matrix (its query time must be < slm_end); (assumption: slm_end lies after the midpoint of
        # the first step, where emu-mps queries the midpoint)
        smt = list(seq._slm_mask_time)
        slm_end = float(smt[1]) if len(smt) > 1 else 0.0
        for k, q in enumerate(rec[:nsteps]):
            if times[k] < slm_end and not (q < slm_end) and slm_end > 0.5 * (times[0] + times[1]):
                ctx.violation(f"emu-{name} uses the FULL interaction matrix during step {k} = [{times[k]}, {times[k + 1]}] "
                              f"(queried at t={q}) although the SLM mask ends only at {slm_end}: masked atoms interact "
                              f"from t={times[k]} on",
                              {"spec": spec, "backend": name, "finding_key": f"mask-lifted-early-{name}", "kind": "backend"})
                break
        # property: the time used for step k lies inside the step
        for k, q in enumerate(rec[:nsteps]):
            if not (times[k] <= q <= times[k + 1]):
                ctx.violation(f"emu-{name} queries the interaction matrix of step {k} at t={q}, outside "
                              f"[{times[k]}, {times[k + 1]}]",
                              {"spec": spec, "backend": name, "finding_key": f"query-time-{name}", "kind": "backend"})
                break
    return ok, detail


def run_e2e_xy(ctx, p):
    """emu-mps, XY, 3 atoms, SLM mask on one atom, a delay before the first global pulse, initial state with the
    excitation ON the masked atom.  Exact reference (dense, trivially solvable): while the mask is on the masked atom
    neither interacts nor is driven, so the excitation number of that atom is conserved: its occupation is exactly 1
    at t = ti and at t = tf; after the mask it must start to spread."""
    import pulser
    import torch
    from pulser.backend import Occupation
    import emu_mps

    reg = pulser.Register.rectangle(3, 1, spacing=8.0, prefix="q")
    seq = pulser.Sequence(reg, pulser.MockDevice)
    seq.declare_channel("ch", "mw_global")
    seq.config_slm_mask([f"q{p['masked']}"])
    seq.delay(p["delay"], "ch")
    seq.add(pulser.Pulse.ConstantPulse(p["pulse"], 1.0, 0.0, 0.0), "ch")
    seq.add(pulser.Pulse.ConstantPulse(p["tail"], 0.0, 0.0, 0.0), "ch")
    total = p["delay"] + p["pulse"] + p["tail"]
    ev = [p["delay"] / total, (p["delay"] + p["pulse"]) / total, 1.0]
    bits = "".join("1" if i == p["masked"] else "0" for i in range(3))
    state = emu_mps.MPS.from_state_amplitudes(eigenstates=("0", "1"), amplitudes={bits: 1.0})
    cfg = emu_mps.MPSConfig(observables=[Occupation(evaluation_times=ev)], dt=p["dt"], initial_state=state,
                            optimize_qubit_ordering=False, log_level=50)
    res = emu_mps.MPSBackend(seq, config=cfg).run()
    occ = [torch.as_tensor(o).real.tolist() for o in res.occupation]
    m = p["masked"]
    ctx.count_case({"e2e_xy": p, "occupation": occ}, True)
    if abs(occ[0][m] - 1.0) > 1e-6 or abs(occ[1][m] - 1.0) > 1e-6:
        ctx.violation(f"emu-mps XY run: the excitation leaves the SLM-masked atom {m} while the mask is on "
                      f"(window {list(seq._slm_mask_time)}): occupation at ti/tf/T = {occ}; exact value is 1 until tf",
                      {"e2e": p, "occupation": occ, "finding_key": "slm-masked-atom-interacts-e2e", "kind": "e2e"})
    if not occ[2][m] < 1.0 - 1e-6:
        return False, f"after the mask the excitation does not spread: {occ} (the reference run is not sensitive)"
    return True, ""

# ---------------------------------------------------------------------------------------------------
# every noise trajectory of real pulser noise models: the matrix of each yielded SequenceData is the prescription
# applied to THAT trajectory's register / bad atoms
# NoiseTrajectory fields (pulser 1.9.1) and whether they enter the interaction matrix; an unknown field fails closed
MATRIX_FIELDS = {"bad_atoms": True, "register": True, "interaction_matrix": True, "doppler_detune": False,
                 "amp_fluctuations": False, "det_fluctuations": False, "det_phases": False, "dmm_det_fluctuation": False}
# noise models: one per matrix-relevant field in which only it varies, mixtures, and controls (matrix constant)
TRAJ_MODELS = {
    "bad_atoms": dict(state_prep_error=0.4),
    "register": dict(temperature=50.0, trap_depth=150.0, trap_waist=1.0, disable_doppler=True),
    "register+bad_atoms": dict(temperature=50.0, trap_depth=150.0, trap_waist=1.0, disable_doppler=True, state_prep_error=0.3),
    "register+doppler+amplitude": dict(temperature=50.0, trap_depth=150.0, trap_waist=1.0, amp_sigma=0.1),   # ising only
    "amplitude+detuning": dict(amp_sigma=0.1, detuning_sigma=0.5),                                          # control
}


def gen_traj_case(rng, model=None):
    model = model or rng.choice(list(TRAJ_MODELS))
    spec = gen_seq_spec(rng)
    if "doppler" in model or "detuning" in model:
        spec["xy"] = False              # pulser: XY does not support doppler / detuning noise
    n = spec["n"]
    spec["coords"] = [(6.5 * (i % 3) + rng.uniform(-0.5, 0.5), 6.5 * (i // 3) + rng.uniform(-0.5, 0.5)) for i in range(n)]
    spec["custom"] = rng.random() < 0.15
    spec["cutoff"] = rng.choice([0.0, 0.0, 0.5, 2.0, 30.0])
    return {"kind": "trajectories", "spec": spec, "model": model, "n_traj": rng.choice([2, 3, 4, 6]),
            "seed": rng.randrange(2 ** 31)}


def check_trajectories(ctx, tc, stats=None):
    """real PulserData with n_trajectories > 1: every yielded SequenceData vs its own NoiseTrajectory"""
    import dataclasses
    import warnings
    import numpy as np
    import torch
    import pulser
    from pulser.backend import EmulationConfig, BitStrings
    from emu_base.pulser_adapter import PulserData

    spec = tc["spec"]
    seq = build_sequence(spec)
    kw = {"interaction_matrix": custom_matrix(spec)} if spec["custom"] else {}
    np.random.seed(tc["seed"])
    torch.manual_seed(tc["seed"])
    with warnings.catch_warnings():
        warnings.simplefilter("ignore")
        cfg = EmulationConfig(observables=[BitStrings(evaluation_times=[1.0])], interaction_cutoff=spec["cutoff"],
                              noise_model=pulser.NoiseModel(**TRAJ_MODELS[tc["model"]]), n_trajectories=tc["n_traj"], **kw)
        try:
            pd = PulserData(sequence=seq, config=cfg, dt=spec["dt"])
        except AssertionError:
            if spec["custom"]:
                return None      # custom-matrix-rejected: reported by run_pulserdata
            raise
        # the trajectories pulser sampled for this PulserData (HamiltonianData.noise_trajectories: what noisy_samples walks)
        per_traj = [tr for tr, reps in pd.hamiltonian.noise_trajectories for _ in range(reps)]
        sds = list(pd.get_sequences())
    meta = {"case": tc, "kind": "trajectories"}
    if len(sds) != len(per_traj) or len(sds) != tc["n_traj"]:
        ctx.violation(f"get_sequences yields {len(sds)} SequenceData for {len(per_traj)} noise trajectories "
                      f"(n_trajectories={tc['n_traj']}, noise model {tc['model']})", dict(meta, finding_key="trajectory-count"))
        return None
    n = spec["n"]
    smt = list(seq._slm_mask_time)
    slm_end = float(smt[1]) if len(smt) > 1 else 0.0
    T = float(pd.target_times[-1])
    masked = set(spec["targets"])
    times = sorted({0.0, T, slm_end, max(slm_end - 0.5, 0.0), min(slm_end + 0.5, T), 0.5 * T})
    c6 = float(pulser.MockDevice.interaction_coeff)

    def source(tr):
        if spec["custom"]:
            return torch.tensor(custom_matrix(spec), dtype=torch.float64).tolist()
        m = tr.interaction_matrix.as_tensor()
        return (m[0] if m.dim() == 3 else m).tolist()

    sources = [source(tr) for tr in per_traj]
    distinct = len({json.dumps(x) for x in sources})
    if stats is not None:
        st = stats.setdefault(tc["model"], {"cases": 0, "trajectories": 0, "cases_with_distinct_matrices": 0})
        st["cases"] += 1
        st["trajectories"] += len(sds)
        st["cases_with_distinct_matrices"] += int(distinct > 1 and not spec["custom"])
    for k, (tr, sd, srcl) in enumerate(zip(per_traj, sds, sources)):
        if [bool(b) for b in sd.bad_atoms] != [bool(b) for b in tr.bad_atoms.values()]:
            ctx.violation(f"SequenceData #{k}: bad_atoms {list(sd.bad_atoms)} are not those of its noise trajectory "
                          f"{list(tr.bad_atoms.values())} (noise model {tc['model']})", dict(meta, finding_key=STALE))
            return False
        for t in times:
            M = sd.interaction_matrix(t).tolist()
            bad = spec_oracle(M, srcl, spec["cutoff"], masked, t, slm_end)
            if bad:
                other = [j for j in range(len(sources)) if sources[j] != srcl and
                         spec_oracle(M, sources[j], spec["cutoff"], masked, t, slm_end) is None]
                if other:
                    ctx.violation(f"SequenceData #{k} of {len(sds)} (noise model `{tc['model']}`, n_trajectories={tc['n_traj']}) "
                                  f"carries the interaction matrix of noise trajectory {other[0]}, not the one of its own "
                                  f"trajectory's register/bad atoms: {bad}", dict(meta, finding_key=STALE, trajectory=k))
                else:
                    ctx.violation(f"SequenceData #{k} (noise model `{tc['model']}`): {bad}",
                                  dict(meta, finding_key="matrix-spec", trajectory=k))
                return False
        if not spec["xy"] and not spec["custom"]:
            # independent of pulser's matrix: C6/r^6 from the positions of THIS trajectory's (noisy, 3D) register, rows
            # and columns of its bad atoms zero; 1e-5: pulser's torch.cdist is only ~1e-7 accurate (see run_pulserdata)
            pos = [torch.as_tensor(p.as_tensor() if hasattr(p, "as_tensor") else p, dtype=torch.float64).flatten()
                   for p in tr.register.qubits.values()]
            pos = [torch.cat([p, torch.zeros(3 - len(p), dtype=torch.float64)]) for p in pos]
            badl = [bool(b) for b in tr.bad_atoms.values()]
            M = sd.interaction_matrix(T).tolist()
            for i in range(n):
                for j in range(n):
                    if i == j:
                        continue
                    want = 0.0 if (badl[i] or badl[j]) else c6 / float(torch.linalg.norm(pos[i] - pos[j])) ** 6
                    if abs(abs(want) - spec["cutoff"]) <= 1e-4 * spec["cutoff"]:
                        continue                       # too close to the cutoff to decide from the inexact distance
                    if abs(want) < spec["cutoff"]:
                        want = 0.0
                    if abs(M[i][j] - want) > 1e-5 * abs(want):
                        ctx.violation(f"SequenceData #{k} of {len(sds)} (noise model `{tc['model']}`): entry ({i},{j}) of the "
                                      f"interaction matrix is {M[i][j]!r}; C6/r^6 for the positions / missing atoms of ITS OWN "
                                      f"noise trajectory is {want!r}", dict(meta, finding_key=STALE, trajectory=k))
                        return False
    return True


def trajectory_stream(ctx, n_cases):
    import dataclasses
    from pulser._hamiltonian_data import NoiseTrajectory

    fields = [f.name for f in dataclasses.fields(NoiseTrajectory)]
    unknown = [f for f in fields if f not in MATRIX_FIELDS]
    ctx.obligation("harness:every NoiseTrajectory field is classified (enters the interaction matrix or not)", not unknown,
                   f"unclassified NoiseTrajectory fields: {unknown}", kind="harness")
    models = list(TRAJ_MODELS)
    cases = [c for c in corpus_cases() if c.get("kind") == "trajectories"]
    for i in range(n_cases):
        tc = gen_traj_case(ctx.rng, models[i % len(models)])
        if i < len(models):      # one case per model in which the per-trajectory matrices certainly matter
            tc["spec"]["custom"], tc["n_traj"] = False, 4
        cases.append(tc)
    stats, ok, detail = {}, True, ""
    for tc in cases:
        try:
            check_trajectories(ctx, tc, stats)
            ctx.count_case({"trajectories": tc}, tc["n_traj"] >= 2)
        except Exception:  # noqa: BLE001
            import traceback
            ok, detail = False, f"case={tc}\n{traceback.format_exc()}"
    ctx.obligation("correspondence:every SequenceData of multi-trajectory noise models vs its own NoiseTrajectory "
                   "(interaction matrix, bad atoms) ran", ok, detail, kind="correspondence")
    # fail closed: the models meant to vary the matrix did so (a stale matrix would have been visible)
    weak = [m for m in ("register", "register+bad_atoms", "register+doppler+amplitude")
            if stats.get(m, {}).get("cases_with_distinct_matrices", 0) == 0]
    ctx.obligation("harness:register noise models produced trajectories with different interaction matrices",
                   not weak, f"no case with distinct per-trajectory matrices for: {weak}; stats {stats}", kind="harness")
    ctx.extra["trajectory_stream"] = stats


def corpus_cases():
    p = common.VERIF / "corpus" / "C23.json"
    return json.loads(p.read_text()) if p.exists() else []


def check_bulk_case(ctx, case, r):
    """property oracle on the stand-in route (integer data): the matrix at each time obeys the spec"""
    trajs, owner = case_trajectories(case)
    if len(r["all_mats"]) != len(owner):
        ctx.violation(f"get_sequences yields {len(r['all_mats'])} SequenceData for trajectories with reps "
                      f"{[x[1] for x in trajs]}", {"case": case, "finding_key": "trajectory-count", "kind": "bulk"})
        return
    # EVERY yielded SequenceData: the matrix is the prescription applied to the matrix of ITS OWN trajectory
    for k, (own, mats) in enumerate(zip(owner, r["all_mats"])):
        src = case["user"] if case["user"] is not None else trajs[own][0][0]
        for t, M in zip(case["ts"], mats):
            bad = spec_oracle(M, src, case["cutoff"], set(case["targets"]), t, case["slm_end"])
            if bad:
                other = [j for j in range(len(trajs)) if j != own and case["user"] is None and spec_oracle(
                    M, trajs[j][0][0], case["cutoff"], set(case["targets"]), t, case["slm_end"]) is None]
                if other:
                    ctx.violation(f"get_sequences: SequenceData #{k} (noise trajectory {own}) carries the interaction matrix "
                                  f"of trajectory {other[0]}, not its own: " + bad,
                                  {"case": case, "finding_key": STALE, "kind": "bulk"})
                else:
                    ctx.violation("get_sequences/_InteractionMatrixCallable: " + bad,
                                  {"case": case, "finding_key": "matrix-spec", "kind": "bulk"})
                return
        if r["bad_atoms"][k] != [bool(b) for b in trajs[own][2]]:
            ctx.violation(f"get_sequences: SequenceData #{k} has bad_atoms {r['bad_atoms'][k]}, its trajectory {own} has "
                          f"{trajs[own][2]}", {"case": case, "finding_key": STALE, "kind": "bulk"})
            return
    if not r["unmutated"]:
        ctx.violation("get_sequences mutated the user / trajectory matrix",
                      {"case": case, "finding_key": "input-mutated", "kind": "bulk"})
    if not r["fresh_storage"]:
        ctx.violation("full / masked matrices share storage with each other or with the inputs",
                      {"case": case, "finding_key": "aliasing", "kind": "bulk"})


def run(ctx):
    from vlib.coqparse import parse

    rc, out = common.coq_make(["Model/Interaction.vo"])
    ctx.obligation("build:Model/Interaction.vo", rc == 0, out, kind="build")
    common.standard_proof_stage(ctx, PROP, ["Properties/C23.vo"])
    ast_pin(ctx)

    rng = ctx.rng
    cases = [c for c in corpus_cases() if c.get("kind") in ("valid", "malformed")]
    cases += [gen_case(rng) for _ in range(ctx.n(250, 4000))]
    cases += [gen_case(rng, malformed=True) for _ in range(ctx.n(80, 1000))]
    ok, detail = True, ""
    try:
        impl = [impl_run(c) for c in cases]
        ev = common.CoqEval(PROP, HEADER)
        for c in cases:
            ev.add(model_expr(c))
        outs = ev.run()
        hist = {}
        for c, r, o in zip(cases, impl, outs):
            model = []       # [query time][yielded item]
            for per_t in parse(o):
                model.append([None if v is None else [list(row) for row in v[1]] for v in per_t])
            real = [[m[i] for m in r["all_mats"]] for i in range(len(c["ts"]))]
            if model != real and ok:
                ok, detail = False, f"case={json.dumps(c)} real={real} model={model}"
                ctx.extra["first_disagreement"] = {"case": c, "real": real, "model": model}
            check_bulk_case(ctx, c, r)
            nontrivial = c["n"] >= 2 and (c["cutoff"] > 0 or bool(c["targets"]))
            ctx.count_case({k: c[k] for k in ("n", "cutoff", "traj_kind", "targets", "slm_end", "ts", "shift", "kind")} |
                           {"user": c["user"] is not None, "trajectories": [x[1] for x in case_trajectories(c)[0]]}, nontrivial)
            key = f"{c['kind']}/{c['traj_kind']}/{'user' if c['user'] is not None else 'register'}/" \
                  f"masked{min(len(c['targets']), 3)}{'+' if len(c['targets']) > 3 else ''}/" \
                  f"{'slm0' if c['slm_end'] == 0 else 'slm>0'}/{'1traj' if not c.get('more') else 'multi-traj'}"
            hist[key] = hist.get(key, 0) + 1
        ctx.extra["input_distribution"] = dict(sorted(hist.items()))
    except Exception:  # noqa: BLE001  any failure of this stage is a broken tie; the next stages still run
        import traceback
        ok, detail = False, traceback.format_exc()
    ctx.obligation("correspondence:Model.Interaction.interaction_at == PulserData.get_sequences + callable (exact)",
                   ok, detail, kind="correspondence")

    # real sequences through __init__
    specs = [s for s in corpus_cases() if s.get("kind") == "spec"]
    specs += [gen_seq_spec(rng) for _ in range(ctx.n(12, 150))]
    specs += [gen_seq_spec(rng, late_mask=True) for _ in range(ctx.n(10, 100))]   # first global pulse at ti > 0
    specs += [gen_precision_spec(rng) for _ in range(ctx.n(25, 250))]             # generic float64 data
    init_ok, init_detail = True, ""
    for s in specs:
        try:
            _, good = run_pulserdata(ctx, s)
            ctx.count_case({"pulserdata": s}, bool(s["targets"]) or s["cutoff"] > 0)
        except Exception:  # noqa: BLE001  (a crash of the real pipeline on a valid sequence is itself reported)
            import traceback
            init_ok, init_detail = False, f"spec={s}\n{traceback.format_exc()}"
    ctx.obligation("correspondence:PulserData.__init__ (slm_end_time, custom matrix, cutoff) on real sequences",
                   init_ok, init_detail, kind="correspondence")

    # every noise trajectory of real noise models (register noise, SPAM, mixtures, controls)
    trajectory_stream(ctx, ctx.n(15, 250))

    # backend query times
    bspecs = [gen_seq_spec(rng, small=True) for _ in range(ctx.n(2, 12))]
    bspecs[0]["targets"] = bspecs[0]["targets"] or [0]
    bspecs.append(dict(gen_seq_spec(rng, small=True, late_mask=True), local_first=False))
    # SLM end off the time grid, in the FIRST half of a step k >= 1 (dt = 10, mask ends at 12 / 22 / 33)
    for first in ([12, 33] if not ctx.thorough() else [12, 22, 33, 41, 52]):
        bspecs.append({"n": rng.choice([2, 3]), "spacing": 6.0, "xy": False, "targets": [0], "pulses": [first, 20],
                       "delay": 0, "local_first": False, "custom": rng.random() < 0.5, "cutoff": 0.0, "dt": 10})
    q_ok, q_detail = True, ""
    for s in bspecs:
        try:
            good, d = run_backends(ctx, s)
            if not good and q_ok:
                q_ok, q_detail = False, d
        except Exception:  # noqa: BLE001
            import traceback
            q_ok, q_detail = False, f"spec={s}\n{traceback.format_exc()}"
    ctx.obligation("correspondence:Model.mps_query_trace/sv_query_trace == times at which the backends call "
                   "interaction_matrix(t)", q_ok, q_detail, kind="correspondence")

    # end to end: XY, delay before the masked pulse, excitation on the masked atom
    try:
        e_ok, e_detail = run_e2e_xy(ctx, {"delay": 40, "pulse": 40, "tail": 40, "dt": 10, "masked": 0})
        if ctx.thorough():
            e2, d2 = run_e2e_xy(ctx, {"delay": 100, "pulse": 60, "tail": 40, "dt": 10, "masked": 2})
            e_ok, e_detail = (e_ok and e2), (e_detail or d2)
    except Exception:  # noqa: BLE001
        import traceback
        e_ok, e_detail = False, traceback.format_exc()
    ctx.obligation("end-to-end:emu-mps XY run with a delay before the SLM pulse ran and was compared with the exact "
                   "invariant", e_ok, e_detail, kind="correspondence")

    ctx.rule = ("stand-in route: random symmetric (and, in the malformed stream, asymmetric / non-zero-diagonal) integer "
                "matrices N=1..7 scaled by 2^-shift, entries at and next to +-cutoff, plain/(1,N,N)/(2,N,N) trajectory "
                "matrices, user matrix or not, 0..N masked atoms (duplicates in the malformed stream), slm_end in "
                "{0, inside, T/2, T, >T}, query times on both sides of and exactly at slm_end; real pulser sequences "
                "(Rydberg and XY, SLM mask, first global pulse at ti = 0 and ti > 0 (delay / local-channel pulse first), custom "
                "matrix, cutoff; query times below ti, inside [ti, tf), after tf, at every target time and step midpoint) through "
                "PulserData.__init__; several scripted noise trajectories per stand-in case (own matrix each, repetitions, equal or "
                "different bad atoms) vs Model.sequences_at; real multi-trajectory noise models (register noise, SPAM, both, "
                "register+doppler+amplitude, amplitude+detuning; Rydberg and XY, SLM mask, cutoff, n_trajectories 2..6): every "
                "yielded SequenceData's matrix vs the matrix and (C6/r^6, 1e-5) the noisy positions / missing atoms of ITS OWN "
                "NoiseTrajectory (key trajectory-interaction-stale); an emu-mps XY run with the excitation on the masked atom; both backends run with a "
                "recording callable. Non-trivial = N>=2 and (cutoff>0 or a masked atom)")
    ctx.trusted_base += ["hand model Model/Interaction.v (validated by the exact correspondence on every run)",
                         "comparisons and zeroing are exact in binary64: integer/dyadic data make the float pipeline equal "
                         "to the integer model",
                         "pulser's Sequence._slm_mask_time / _slm_mask_targets / Register.find_indices as the SLM schedule"]
    ctx.assumptions += ["the matrix the register yields (C6/r^6, C3/r^3) is pulser's (torch.cdist, accurate to ~1e-7 only): the "
                        "emulator side is compared bit for bit with pulser's float64 tensor, and with C6/r^6 at 1e-5",
                        "'inputs never mutated' is validated on the real tensors (equality + distinct storage), not proved",
                        "backend oracle 'a step starting before slm_end uses the masked matrix' assumes slm_end lies after the "
                        "midpoint of the first step (emu-mps queries step 0 at its midpoint)",
                        "query-time theorem: times are abstract ordered numbers; the backends' float midpoint "
                        "0.5*(a+b) is compared exactly with the recorded times"]


def replay(ctx, path):
    rp = json.loads(open(path).read())
    if rp.get("kind") == "bulk":
        c = rp["case"]
        r = impl_run(c)
        print("replay: matrices", r["mats"])
        check_bulk_case(ctx, c, r)
    elif rp.get("kind") == "trajectories":
        print("replay: trajectories ok =", check_trajectories(ctx, rp["case"]))
    elif rp.get("kind") == "pulserdata":
        run_pulserdata(ctx, rp["spec"])
    elif rp.get("kind") == "backend":
        print(run_backends(ctx, rp["spec"]))
    elif rp.get("kind") == "e2e":
        print(run_e2e_xy(ctx, rp["e2e"]))
    else:
        print("nothing to replay in", path)


META = {
    "category": "proof",
    "technique": "Coq proof (list induction, every N) over a hand model of the interaction-matrix pipeline + AST pin of "
                 "the callable + exact correspondence with PulserData.get_sequences and recorded backend query times",
    "text": ("Proved for every matrix size, target list, cutoff, SLM end and time: entrywise cutoff spec and shape, "
             "entrywise mask spec of the matrix returned at time t (0 iff t < slm_end and a masked atom is involved, else "
             "the cut-off source entry), symmetry and zero diagonal preserved, user matrix used iff given (first packed "
             "matrix otherwise), the callable switches exactly at slm_end, and the query time of every step lies inside "
             "the step on both backends (emu-mps: midpoint for step 0, step start afterwards; emu-sv: step start); over any "
             "list of noise trajectories with repetitions, the k-th yielded SequenceData answers with the pipeline applied to "
             "the matrix of its own trajectory (C23_every_trajectory_own_matrix). "
             "Validated only: that the model is the code (exact correspondence, AST pin), that inputs are not mutated, "
             "slm_end_time and the custom matrix through the real __init__, the recorded query times; for one noise model per "
             "NoiseTrajectory field of pulser that enters the interaction matrix (register positions, bad atoms), mixtures and "
             "controls, that every yielded SequenceData's matrix is the prescription applied to THAT trajectory's register "
             "(bit for bit vs the trajectory's matrix, 1e-5 vs C6/r^6 of its noisy positions; key trajectory-interaction-stale)."),
    "note": ("Trusted: Coq kernel+VM, the hand model, exactness of float comparisons/zeroing on dyadic data, pulser's SLM "
             "bookkeeping."),
}
