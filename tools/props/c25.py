"""C25 — badly prepared atoms behave as absent, on both backends (DESIGN.md §4 C25).

Coq: Model/DarkSv.v (SVBackendImpl.init_dark_qubits, __init__ guards), Model/DarkMps.v (MPSBackendImpl
init_dark_qubits/_get_interaction_matrix/update_H routing on top of Model/QubitOrder.v, emu_mps/utils.py padding on
tensor shapes, guards up to the first fill_results); theorems in Properties/C25.v for every N / mask / permutation.
Tie (checked every run, exact): the real backends are driven with hand-built integer SequenceData for every mask x
permutation (N<=4 all permutations, N=5 all masks) and the parameters that reach the solver (EvolveStateVector.apply
arguments; make_H / update_H arguments), the filter, qubit_count, the padded shapes and the raised exception class are
compared with vm_compute of the model.  The model has one switch (pad_fixed: physical dimension of the inserted |g>
factors, hard-coded 2 = F-14, or taken from the state = proposed_fixes/mps-qutrit-bad-atom.diff); the correspondence
determines on every run which variant the code follows.  Falsifier: end-to-end runs of both backends against an independent dense
reference of the good-atom sub-register (2-6 atoms, all masks incl. all-but-one and all bad, reordering forced).
"""
import dataclasses
import itertools
import json
import logging
import random
import warnings

import numpy as np

from props import _dense_ref as D
from vlib import common
from vlib.coqparse import parse

HEADER = """From Coq Require Import ZArith List Bool Arith.
Import ListNotations.
From EV Require Import Base.Arith Model.SvBase Model.SvHam Model.DarkSv Model.Permutations Model.Optimiser
  Model.QubitOrder Model.DarkMps.
Definition ZK : Kops := MkKops Z 0%Z 1%Z Z.add Z.mul Z.sub Z.opp (fun x => x) 0%Z 0%Z.
Open Scope Z_scope."""

ERR = {2501: "ValueError", 2502: "NotImplementedError", 2511: "IndexError", 2512: "AssertionError",
       2513: "ValueError", 2514: "ValueError", 2515: "NotImplementedError", 2516: "ValueError", 201: "IndexError"}
# calibrated on the unchanged tree: emu-sv <= 4e-11, emu-mps (default precision 1e-5, dt = 20 ns) <= 1.4e-5 on these
# families; a wrong atom / wrong sub-register changes occupations by >= 1e-2
OCC_TOL = {"sv": 1e-6, "mps": 2e-3}
EN_TOL = {"sv": 1e-5, "mps": 2e-2}


# ---- literals ------------------------------------------------------------------------------------------------
def zl(xs):
    return "[" + "; ".join(str(int(x)) if x >= 0 else f"({int(x)})" for x in xs) + "]"


def zm(m):
    return "[" + "; ".join(zl(r) for r in m) + "]"


def nl(xs):
    return "([" + "; ".join(str(int(x)) for x in xs) + "]%nat)"


def bl(xs):
    return "[" + "; ".join("true" if x else "false" for x in xs) + "]"


def b(x):
    return "true" if x else "false"


def okv(v):
    return v[1] if isinstance(v, tuple) and v[0] == "Ok" else None


def code_of(v):
    """model verdict -> exception class name or 'ok'"""
    if isinstance(v, tuple) and v[0] == "Ok":
        return "ok"
    if isinstance(v, tuple) and v[0] == "Err":
        return ERR.get(int(v[1]), f"Err{v[1]}")
    return str(v)


# ---- hand-built integer sequence data ----------------------------------------------------------------------------
class ConstMatrix:
    def __init__(self, m):
        self.m = m

    def __call__(self, t):
        return self.m


def int_case(n, bad, spe, perm=None, dim=2, steps=2):
    inter = [[0] * n for _ in range(n)]
    k = 1
    for i in range(n):
        for j in range(i):
            inter[i][j] = inter[j][i] = k
            k += 1
    return {"n": n, "bad": [bool(x) for x in bad], "spe": bool(spe), "perm": list(perm) if perm else list(range(n)),
            "dim": dim, "steps": steps,
            "omega": [[10 + 3 * a + 100 * s for a in range(n)] for s in range(steps)],
            "delta": [[-(20 + a) - 100 * s for a in range(n)] for s in range(steps)],
            "phi": [[1 + a + 7 * s for a in range(n)] for s in range(steps)], "inter": inter}


def make_data(c):
    import torch
    from emu_base import SequenceData, HamiltonianType

    ct = torch.complex128
    n = c["n"]
    return SequenceData(
        omega=torch.tensor(c["omega"], dtype=ct).reshape(c["steps"], n),
        delta=torch.tensor(c["delta"], dtype=ct).reshape(c["steps"], n),
        phi=torch.tensor(c["phi"], dtype=ct).reshape(c["steps"], n),
        interaction_matrix=ConstMatrix(torch.tensor(c["inter"], dtype=torch.float64).reshape(n, n)),
        qubit_ids=tuple(f"q{a}" for a in range(n)), bad_atoms=tuple(c["bad"]), lindblad_ops=[],
        state_prep_error=0.1 if c["spe"] else 0.0, target_times=[float(10 * k) for k in range(c["steps"] + 1)],
        eigenstates=["r", "g"] if c["dim"] == 2 else ["r", "g", "x"], hamiltonian_type=HamiltonianType.Rydberg)


def ints(t):
    return [int(round(float(x.real if hasattr(x, "real") else x))) for x in t.reshape(-1).tolist()]


def intm(t):
    return [[int(round(float(x))) for x in row] for row in t.real.tolist()] if t.numel() else []


# ---- A. emu-sv: parameters reaching the stepper -------------------------------------------------------------------
def sv_real(c, init=None):
    import emu_sv
    from emu_sv.sv_backend_impl import SVBackendImpl

    with warnings.catch_warnings():
        warnings.simplefilter("ignore")
        kw = {}
        if init is not None:
            kw["initial_state"] = emu_sv.StateVector.make(init, gpu=False)
        cfg = emu_sv.SVConfig(observables=[], gpu=False, log_level=logging.CRITICAL, **kw)
        try:
            impl = SVBackendImpl(cfg, make_data(c))
        except (ValueError, NotImplementedError, AssertionError, IndexError) as ex:
            return {"outcome": type(ex).__name__}
    rec = []

    class Stub:
        @staticmethod
        def apply(dt, omega, delta, phi, U, state, tol, lind):
            rec.append({"omega": ints(omega), "delta": ints(delta), "phi": ints(phi), "inter": intm(U)})
            return state, None

    impl.stepper = Stub
    for k in range(c["steps"]):
        impl._evolve_step(10.0, k)
    return {"outcome": "ok", "steps": rec}


def sv_expr(c, init=None):
    bad = bl(c["bad"])
    steps = "; ".join(
        f"sv_init_dark ZK {b(c['spe'])} {bad} {zl(c['omega'][s])} {zl(c['delta'][s])} {zl(c['phi'][s])} {zm(c['inter'])}"
        for s in range(c["steps"]))
    ini = "None" if init is None else f"(Some {init}%nat)"
    return f"([{steps}], sv_accepts {c['n']}%nat {ini} {b(c['spe'])} {bad})"


def sv_compare(c, real, mv):
    steps, acc = mv
    if code_of(acc) != real["outcome"]:
        return f"accepts: model {code_of(acc)} real {real['outcome']}"
    if real["outcome"] != "ok":
        return None
    for s, (m, r) in enumerate(zip(steps, real["steps"])):
        om, de, ph, U = m
        got = {"omega": list(om), "delta": list(de), "phi": list(ph), "inter": [list(x) for x in U]}
        if got != r:
            return f"step {s}: model {got} real {r}"
    return None


# ---- B. emu-mps: routing + accepted masks --------------------------------------------------------------------------
class Forced:
    """minimize_bandwidth -> forced permutation; make_H / update_H arguments recorded (names rebound, restored)."""

    def __init__(self, perm):
        self.perm = perm
        self.make_H, self.update_H = [], []

    def __enter__(self):
        import torch
        import emu_mps.optimatrix as optimat
        import emu_mps.mps_backend_impl as impl_mod

        self.mods = (optimat, impl_mod)
        self.saved = (optimat.minimize_bandwidth, impl_mod.make_H, impl_mod.update_H)
        me = self
        optimat.minimize_bandwidth = lambda m, *a, **k: torch.tensor(me.perm)
        real_make_H, real_update_H = impl_mod.make_H, impl_mod.update_H

        def make_H(**kw):
            me.make_H.append(kw["interaction_matrix"].clone())
            return real_make_H(**kw)

        def update_H(**kw):
            me.update_H.append({k: kw[k].clone() for k in ("omega", "delta", "phi")})
            return real_update_H(**kw)

        impl_mod.make_H, impl_mod.update_H = make_H, update_H
        return self

    def __exit__(self, *a):
        optimat, impl_mod = self.mods
        optimat.minimize_bandwidth, impl_mod.make_H, impl_mod.update_H = self.saved


def mps_config(obs, reorder=True, **kw):
    import emu_mps

    with warnings.catch_warnings():
        warnings.simplefilter("ignore")
        return emu_mps.MPSConfig(observables=obs, log_level=logging.CRITICAL, optimize_qubit_ordering=reorder, **kw)


def mps_real(c, has_init=False):
    import emu_mps
    from emu_mps.mps_backend_impl import create_impl
    from pulser.backend import Occupation

    out = {}
    kw = {}
    if has_init:
        eig = ("r", "g") if c["dim"] == 2 else ("r", "g", "x")
        kw["initial_state"] = emu_mps.MPS.from_state_amplitudes(eigenstates=eig, amplitudes={"g" * c["n"]: 1.0})
    obs = [Occupation(evaluation_times=[1.0])]
    with warnings.catch_warnings():
        warnings.simplefilter("ignore")
        with Forced(c["perm"]):
            impl = create_impl(make_data(c), mps_config(obs, **kw))
            impl.init_dark_qubits()
            f = impl.well_prepared_qubits_filter
            out["filter"] = None if f is None else [bool(x) for x in f]
            out["count"] = int(impl.qubit_count)
            out["omega"] = [ints(r) for r in impl.omega]
            out["delta"] = [ints(r) for r in impl.delta]
            out["phi"] = [ints(r) for r in impl.phi]
            out["inter"] = intm(impl._get_interaction_matrix())
        with Forced(c["perm"]) as rec:
            try:
                emu_mps.MPSBackend._run_from_sequence_data(make_data(c), mps_config(obs, **kw))
                out["outcome"] = "ok"
            except (ValueError, NotImplementedError, AssertionError, IndexError) as ex:
                out["outcome"] = type(ex).__name__
                out["message"] = str(ex)[:80]
            out["make_H"] = [intm(m) for m in rec.make_H]
            out["update_H"] = [{k: ints(v) for k, v in u.items()} for u in rec.update_H]
    return out


def mps_expr(c, has_init=False):
    a = f"{b(c['spe'])} {nl(c['perm'])} {bl(c['bad'])}"
    rows = lambda key: "[" + "; ".join(f"mps_dark_drive {a} {zl(r)}" for r in c[key]) + "]"  # noqa: E731
    return (f"(mps_filter {a}, mps_dark_count {a}, {rows('omega')}, {rows('delta')}, {rows('phi')}, "
            f"mps_dark_interaction {a} {zm(c['inter'])}, "
            f"mps_accepts false {c['n']}%nat {c['dim']}%nat {b(c['spe'])} {b(has_init)} {bl(c['bad'])}, "
            f"mps_accepts true {c['n']}%nat {c['dim']}%nat {b(c['spe'])} {b(has_init)} {bl(c['bad'])})")


def mps_compare(c, real, mv):
    filt, count, om, de, ph, inter, acc_legacy, acc_fixed = mv
    if not all(isinstance(x, tuple) and x[0] == "Ok" for x in [filt, count, inter] + list(om) + list(de) + list(ph)):
        return f"model raised in routing: {mv}"
    filt, count, inter = filt[1], count[1], inter[1]
    om, de, ph = ([x[1] for x in rows] for rows in (om, de, ph))
    mfilt = None if filt is None else list(filt[1])
    if mfilt != real["filter"]:
        return f"filter: model {mfilt} real {real['filter']}"
    if count != real["count"]:
        return f"qubit_count: model {count} real {real['count']}"
    for key, rows in (("omega", om), ("delta", de), ("phi", ph)):
        if [list(r) for r in rows] != real[key]:
            return f"{key}: model {rows} real {real[key]}"
    if [list(r) for r in inter] != real["inter"]:
        return f"interaction: model {inter} real {real['inter']}"
    ok_variants = {v for v, acc in ((False, acc_legacy), (True, acc_fixed)) if code_of(acc) == real["outcome"]}
    PAD_VARIANTS.intersection_update(ok_variants)
    if not ok_variants:
        return (f"accepts: model {code_of(acc_legacy)} (padding as analysed) / {code_of(acc_fixed)} (padding fixed), "
                f"real {real['outcome']} ({real.get('message')})")
    if not PAD_VARIANTS:
        return "no single padding variant explains all cases (accepted masks)"
    if real["make_H"] and real["make_H"][0] != [list(r) for r in inter]:
        return f"make_H argument {real['make_H'][0]} differs from model {inter}"
    allowed = [{"omega": list(om[s]), "delta": list(de[s]), "phi": list(ph[s])} for s in range(c["steps"])]
    for u in real["update_H"]:
        if u not in allowed:
            return f"update_H argument {u} is not a routed row {allowed}"
    if real["update_H"] and real["update_H"][0] != allowed[0]:
        return "first update_H call does not use row 0"
    return None


PAD_VARIANTS = {False, True}   # narrowed by the correspondences: which padding variant(s) the real code follows


# ---- C. padding -----------------------------------------------------------------------------------------------------
def gen_pad_case(rng, malformed=False):
    nf = rng.randint(0, 5)
    dim = rng.choice([2, 2, 3])
    bonds = [1] + [rng.randint(1, 3) for _ in range(max(nf - 1, 0))] + [1]
    if nf and rng.random() < 0.15:
        bonds[rng.randrange(len(bonds))] = 2  # chain defect (first/last bond or mismatch is then possible)
    shapes = [[bonds[i], dim if rng.random() < 0.93 else 5 - dim, bonds[i + 1]] for i in range(nf)]
    if nf and rng.random() < 0.1:
        shapes[rng.randrange(nf)][0] += 1
    wh = [True] * nf + [False] * rng.randint(0, 4)
    rng.shuffle(wh)
    if malformed:
        wh = wh + [True] if rng.random() < 0.5 or not wh else wh[:-1] + [not wh[-1]]
    return {"shapes": shapes, "wh": wh, "dim": dim, "malformed": malformed,
            "desired": list(range(0, sum(wh) + 2))}


def pad_real(c):
    import torch
    from emu_mps import MPS
    from emu_mps.utils import extended_mps_factors, extended_mpo_factors, get_extended_site_index

    g = torch.Generator().manual_seed(1)
    fac = [torch.randn(*s, generator=g, dtype=torch.float64).to(torch.complex128) for s in c["shapes"]]
    mpo = [torch.randn(s[0], s[1], s[1], s[2], generator=g, dtype=torch.float64).to(torch.complex128) for s in c["shapes"]]
    wh = torch.tensor(c["wh"], dtype=torch.bool)
    out = {}

    def pad_ok_mps(t):
        e = torch.zeros_like(t)
        e[:, 0, :] = torch.eye(t.shape[0], t.shape[2])
        return bool(torch.equal(t, e))

    def pad_ok_mpo(t):
        e = torch.zeros_like(t)
        for d in range(t.shape[1]):
            e[:, d, d, :] = torch.eye(t.shape[0], t.shape[3])
        return bool(torch.equal(t, e))

    try:
        r = extended_mps_factors(fac, wh)
        out["mps"] = [[not any(t is f for f in fac), list(t.shape)] for t in r]
        out["mps_pad_content"] = all(pad_ok_mps(t) for t in r if not any(t is f for f in fac))
        try:
            MPS(r, num_gpus_to_use=None, eigenstates=["r", "g"] if c["dim"] == 2 else ["r", "g", "x"])
            out["ctor"] = "ok"
        except (AssertionError, IndexError) as ex:
            out["ctor"] = type(ex).__name__
    except (AssertionError, IndexError) as ex:
        out["mps"] = type(ex).__name__
    try:
        r = extended_mpo_factors(mpo, wh)
        out["mpo"] = [[not any(t is f for f in mpo), [t.shape[0], t.shape[1], t.shape[3]], t.shape[1] == t.shape[2]] for t in r]
        out["mpo_pad_content"] = all(pad_ok_mpo(t) for t in r if not any(t is f for f in mpo))
    except (AssertionError, IndexError) as ex:
        out["mpo"] = type(ex).__name__
    out["index"] = []
    for d in c["desired"]:
        try:
            out["index"].append(int(get_extended_site_index(wh, d)))
        except ValueError:
            out["index"].append("ValueError")
    return out


def sh(s):
    return f"({s[0]}, {s[1]}, {s[2]})%nat"


def pad_expr(c):
    shapes = "[" + "; ".join(sh(s) for s in c["shapes"]) + "]"
    idx = "[" + "; ".join(f"extended_site_index {bl(c['wh'])} {d}%nat" for d in c["desired"]) + "]"
    one = lambda v: (f"(extended_mps_shapes {v} {shapes} {bl(c['wh'])}, "  # noqa: E731
                     f"res_bind (extended_mps_shapes {v} {shapes} {bl(c['wh'])}) (fun r => mps_ctor_ok {c['dim']}%nat (map snd r)))")
    return f"({one('false')}, {one('true')}, {idx})"


def pad_compare(c, real, mv):
    e0, c0, fixed, idx = mv      # Coq prints ((a, b), (c, d), e) as (a, b, (c, d), e)
    legacy = (e0, c0)
    msgs = {}
    for v, (ext, ctor) in ((False, legacy), (True, fixed)):
        msgs[v] = pad_compare_variant(c, real, ext, ctor)
    ok_variants = {v for v, m in msgs.items() if m is None}
    PAD_VARIANTS.intersection_update(ok_variants)
    if not ok_variants:
        return f"padding as analysed: {msgs[False]}; padding fixed: {msgs[True]}"
    if not PAD_VARIANTS:
        return "no single padding variant explains all cases (padding helpers)"
    mi = [okv(x) if okv(x) is not None else code_of(x) for x in idx]
    if mi != real["index"]:
        return f"get_extended_site_index: model {mi} real {real['index']}"
    return None


def pad_compare_variant(c, real, ext, ctor):
    e = okv(ext)
    if e is None:
        if real["mps"] != code_of(ext) or real["mpo"] != code_of(ext):
            return f"extended_*: model {code_of(ext)} real mps={real['mps']} mpo={real['mpo']}"
    else:
        m = [[bool(p), [int(x[0]), int(x[1]), int(x[2])]] for p, x in e]
        if m != real["mps"]:
            return f"extended_mps_factors: model {m} real {real['mps']}"
        if not isinstance(real["mpo"], list) or [[p, s] for p, s, _ in real["mpo"]] != m or not all(q for _, _, q in real["mpo"]):
            return f"extended_mpo_factors: model {m} real {real['mpo']}"
        if not (real["mps_pad_content"] and real["mpo_pad_content"]):
            return "inserted factor is not the |g> / identity tensor"
        if code_of(ctor) != real["ctor"]:
            return f"MPS(...) on the padded chain: model {code_of(ctor)} real {real['ctor']}"
    return None


# ---- D. end-to-end falsifier ------------------------------------------------------------------------------------------
def e2e_spec(backend, n, bad, seed, perm=None, dim=2, steps=8, dt=20.0):
    return {"backend": backend, "n": n, "bad": [bool(x) for x in bad], "seed": int(seed), "perm": perm, "dim": dim,
            "steps": steps, "dt": dt}


def e2e_problem(spec):
    return D.random_problem(random.Random(spec["seed"]), spec["n"], spec["steps"], dt=spec["dt"], scale=spec.get("scale", 1.0))


def e2e_reference(spec, prob):
    n = spec["n"]
    good = [i for i, x in enumerate(spec["bad"]) if not x]
    occ = np.zeros(n)
    corr = np.zeros((n, n))
    if not good:
        return occ, corr, 0.0
    om, de, ph = prob["omega"][:, good], prob["delta"][:, good], prob["phi"][:, good]
    U = prob["U"][np.ix_(good, good)]
    st, Hs = D.evolve(om, de, ph, lambda t: U, prob["times"])
    occ[good] = D.occupation(st[-1], len(good))
    corr[np.ix_(good, good)] = D.correlation(st[-1], len(good))
    return occ, corr, D.energy(st[-1], Hs[-1])


def e2e_run(spec):
    """-> dict(outcome=..., errors...) ; raises nothing"""
    import emu_mps
    import emu_sv
    from pulser.backend import BitStrings, CorrelationMatrix, Energy, Occupation

    prob = e2e_problem(spec)
    et = [1.0]
    obs = [Occupation(evaluation_times=et), Energy(evaluation_times=et), CorrelationMatrix(evaluation_times=et),
           BitStrings(evaluation_times=et, num_shots=100)]
    data = D.to_sequence_data(prob, bad_atoms=spec["bad"], state_prep_error=0.05)
    if spec["dim"] == 3:
        data = dataclasses.replace(data, eigenstates=["r", "g", "x"])
    random.seed(12345)
    try:
        with warnings.catch_warnings():
            warnings.simplefilter("ignore")
            if spec["backend"] == "mps":
                perm = spec["perm"]
                with Forced(perm if perm else list(range(spec["n"]))):
                    res = emu_mps.MPSBackend._run_from_sequence_data(data, mps_config(obs, reorder=perm is not None))
            else:
                cfg = emu_sv.SVConfig(observables=obs, gpu=False, log_level=logging.CRITICAL)
                res = emu_sv.SVBackend._run_from_sequence_data(data, cfg)
    except Exception as ex:  # noqa: BLE001 - any exception on an input the property covers is a finding
        return {"outcome": "raises", "exception": type(ex).__name__, "message": str(ex)[:120]}
    occ_ref, corr_ref, en_ref = e2e_reference(spec, prob)
    occ = np.array([float(x) for x in res.get_result("occupation", 1.0)])
    corr = np.array([[float(np.real(complex(x))) for x in row] for row in res.get_result("correlation_matrix", 1.0)])
    en = float(res.get_result("energy", 1.0))
    bits = res.get_result("bitstrings", 1.0)
    badpos = [i for i, x in enumerate(spec["bad"]) if x]
    bits_ok = all(len(s) == spec["n"] and all(s[i] == "0" for i in badpos) for s in bits)
    return {"outcome": "ok", "occ_err": float(np.abs(occ - occ_ref).max()), "corr_err": float(np.abs(corr - corr_ref).max()),
            "en_err": abs(en - en_ref), "bits_ok": bool(bits_ok), "atom_order": list(res.atom_order),
            "occ": occ.tolist(), "occ_ref": occ_ref.tolist()}


def e2e_judge(ctx, spec, r):
    ngood = sum(1 for x in spec["bad"] if not x)
    nbad = spec["n"] - ngood
    ctx.count_case({"kind": "e2e", **{k: spec[k] for k in ("backend", "n", "bad", "perm", "dim", "seed")},
                    "outcome": r["outcome"]}, nontrivial=nbad > 0)
    if r["outcome"] == "raises":
        if spec["backend"] == "mps" and ngood < 2:
            key, what = "mps-fewer-than-2-good-atoms", f"emu-mps raises when {ngood} of {spec['n']} atoms are well prepared"
        elif spec["backend"] == "mps" and spec["dim"] == 3 and nbad:
            key, what = "mps-qutrit-bad-atom", "emu-mps raises with a 3-level (leakage) basis and a badly prepared atom"
        else:
            key, what = f"{spec['backend']}-raises", f"emu-{spec['backend']} raises on a valid bad-atom mask"
        ctx.violation(f"{what}: {r['exception']}: {r['message']}", {"spec": spec, "result": r, "finding_key": key})
        return
    be = spec["backend"]
    ok = (r["occ_err"] <= OCC_TOL[be] and r["corr_err"] <= OCC_TOL[be] and r["en_err"] <= EN_TOL[be] * max(1, spec["n"])
          and r["bits_ok"] and r["atom_order"] == [f"q{i}" for i in range(spec["n"])])
    if not ok:
        ctx.violation(
            f"emu-{spec['backend']} with bad atoms {spec['bad']} differs from the run of the register without them "
            f"(occ err {r['occ_err']:.3g}, corr err {r['corr_err']:.3g}, energy err {r['en_err']:.3g}, bits_ok={r['bits_ok']})",
            {"spec": spec, "result": r, "finding_key": f"dark-atoms-dynamics-{spec['backend']}"})


def rot(n, k=1):
    return [(i + k) % n for i in range(n)]


def e2e_specs(ctx):
    rng = ctx.rng
    specs = []
    sizes_all = [2, 3, 4] if not ctx.thorough() else [2, 3, 4, 5]
    for n in sizes_all:
        seed = rng.randrange(10 ** 6)
        for bad in itertools.product([False, True], repeat=n):
            if not any(bad) and n > 2:
                continue
            specs.append(e2e_spec("sv", n, bad, seed))
            specs.append(e2e_spec("mps", n, bad, seed))
            perm = rot(n, 1 + sum(bad) % max(n - 1, 1)) if n > 2 else [1, 0]
            specs.append(e2e_spec("mps", n, bad, seed, perm=perm))
    for n in ([5, 6] if not ctx.thorough() else [6, 6, 7]):
        seed = rng.randrange(10 ** 6)
        masks = [[i == j for i in range(n)] for j in (0, n // 2)] + [[i != 1 for i in range(n)], [True] * n,
                                                                    [i % 2 == 0 for i in range(n)]]
        masks += [[rng.random() < 0.4 for _ in range(n)] for _ in range(ctx.n(2, 10))]
        for bad in masks:
            perm = list(range(n))
            rng.shuffle(perm)
            specs.append(e2e_spec("sv", n, bad, seed, steps=6))
            specs.append(e2e_spec("mps", n, bad, seed, perm=perm, steps=6))
    # 3-level basis (emu-mps only): no bad atom (must agree with the reference), then one and two bad atoms
    for n in ([3, 4] if not ctx.thorough() else [3, 4, 5]):
        seed = rng.randrange(10 ** 6)
        for bad in ([False] * n, [i == 1 for i in range(n)], [i == 0 for i in range(n)]):
            specs.append(e2e_spec("mps", n, bad, seed, dim=3, perm=rot(n) if n > 3 else None))
    return specs


# ---- E. bad atoms together with Lindblad noise -------------------------------------------------------------------------
NOISE_TOL = {"sv": 1e-7, "mps": 1e-6}    # bad-atom run vs sub-register run, same backend, same jump pattern: same arithmetic
NOJUMP_TOL = {"sv": 1e-5, "mps": 2e-3}   # vs dense normalised H_eff evolution (mps: TDVP error, as OCC_TOL)


def noise_spec(mode, backend, n, bad, seed, rseed, relaxation, dephasing, perm=None, steps=8, dt=20.0, depolarizing=0.0):
    return {"kind": "noise", "mode": mode, "backend": backend, "n": n, "bad": [bool(x) for x in bad], "seed": int(seed),
            "rseed": int(rseed), "relaxation": float(relaxation), "dephasing": float(dephasing),
            "depolarizing": float(depolarizing), "perm": perm,
            "steps": steps, "dt": dt, "scale": 2.5}


def lindblad_ops(spec):
    import torch

    ops = []
    if spec["relaxation"] > 0:
        L = torch.zeros(2, 2, dtype=torch.complex128)
        L[0, 1] = spec["relaxation"] ** 0.5          # |g><r|
        ops.append(L)
    if spec["dephasing"] > 0:
        L = torch.zeros(2, 2, dtype=torch.complex128)
        L[0, 0], L[1, 1] = (spec["dephasing"] / 2) ** 0.5, -(spec["dephasing"] / 2) ** 0.5
        ops.append(L)
    if spec.get("depolarizing", 0.0) > 0:               # sqrt(rate/4) * (sigma_x, sigma_y, sigma_z): excites g, local
        c = (spec["depolarizing"] / 4) ** 0.5
        for m in ([[0, 1], [1, 0]], [[0, -1j], [1j, 0]], [[1, 0], [0, -1]]):
            ops.append(c * torch.tensor(m, dtype=torch.complex128))
    return ops


class NoJumpRandom:
    """stand-in for the `random` module inside emu_mps.mps_backend_impl: the jump threshold is (almost) 0, so the
    trajectory never jumps; every value is then the normalised H_eff evolution"""

    def uniform(self, a, b):
        return a + 1e-9 * (b - a)

    def choices(self, *a, **k):
        raise RuntimeError("a quantum jump was attempted in a scripted no-jump trajectory")

    def __getattr__(self, k):
        return getattr(random, k)


def sub_problem(prob, good):
    return dict(n=len(good), steps=prob["steps"], times=prob["times"], omega=prob["omega"][:, good],
                delta=prob["delta"][:, good], phi=prob["phi"][:, good], U=prob["U"][np.ix_(good, good)], xy=False)


def noisy_run(backend, prob, bad, spe, ops, perm, rseed, no_jump, et):
    import emu_mps
    import emu_mps.mps_backend_impl as impl_mod
    import emu_sv
    from pulser.backend import CorrelationMatrix, Energy, Occupation

    obs = [Occupation(evaluation_times=et), Energy(evaluation_times=et), CorrelationMatrix(evaluation_times=et)]
    data = D.to_sequence_data(prob, lindblad_ops=ops, bad_atoms=bad, state_prep_error=spe)
    random.seed(rseed)
    with warnings.catch_warnings():
        warnings.simplefilter("ignore")
        if backend == "mps":
            saved = impl_mod.random
            try:
                if no_jump:
                    impl_mod.random = NoJumpRandom()
                with Forced(perm if perm else list(range(prob["n"]))):
                    res = emu_mps.MPSBackend._run_from_sequence_data(data, mps_config(obs, reorder=perm is not None))
            finally:
                impl_mod.random = saved
        else:
            res = emu_sv.SVBackend._run_from_sequence_data(
                data, emu_sv.SVConfig(observables=obs, gpu=False, log_level=logging.CRITICAL))
    out = {"atom_order": list(res.atom_order)}
    for t in et:
        out[f"occ@{t}"] = np.array([float(x) for x in res.get_result("occupation", t)])
        out[f"corr@{t}"] = np.array([[float(np.real(complex(x))) for x in row] for row in res.get_result("correlation_matrix", t)])
        out[f"energy@{t}"] = float(res.get_result("energy", t))
    return out


def heff_reference(prob, ops, et):
    """normalised no-jump evolution under H - (i/2) sum_j sum_k (L_k^dag L_k)_j ; occupations at the evaluation times"""
    import scipy.linalg as sla

    n, steps = prob["n"], prob["steps"]
    LdL = sum((L.numpy().conj().T @ L.numpy() for L in ops), np.zeros((2, 2), dtype=complex))
    damp = sum((D._embed(LdL, j, n) for j in range(n)), np.zeros((2 ** n, 2 ** n), dtype=complex))
    psi = np.zeros(2 ** n, dtype=complex)
    psi[0] = 1.0
    out, norms = {}, {}
    for k in range(steps):
        H = D.dense_H(prob["omega"][k], prob["delta"][k], prob["phi"][k], prob["U"]) - 0.5j * damp
        psi = sla.expm(-1j * H * (prob["times"][k + 1] - prob["times"][k]) * 1e-3) @ psi
        for t in et:
            if round(t * steps) == k + 1:
                nrm = float(np.vdot(psi, psi).real)
                out[t], norms[t] = D.occupation(psi / nrm ** 0.5, n), nrm
    return out, norms


def noise_run(spec):
    prob = e2e_problem(spec)
    n = spec["n"]
    good = [i for i, x in enumerate(spec["bad"]) if not x]
    et = [0.5, 1.0] if spec["steps"] % 2 == 0 else [1.0]
    ops = lindblad_ops(spec)
    sub = sub_problem(prob, good)
    perm = spec["perm"]
    sub_perm = None
    if perm is not None:
        sub_perm = [good.index(a) for a in perm if a in good]     # the good atoms in internal order, as ranks
    no_jump = spec["mode"] == "no-jump"
    try:
        full = noisy_run(spec["backend"], prob, spec["bad"], 0.05, ops, perm, spec["rseed"], no_jump, et)
        small = noisy_run(spec["backend"], sub, [False] * len(good), 0.0, ops, sub_perm, spec["rseed"], no_jump, et)
    except Exception as ex:  # noqa: BLE001
        return {"outcome": "raises", "exception": type(ex).__name__, "message": str(ex)[:160]}
    worst, scale = 0.0, 0.0
    only_good = spec.get("depolarizing", 0.0) > 0    # a channel that excites g acts on the bad atoms of emu-sv's density
    for t in et:                                      # matrix too (local): only the good atoms are compared then
        occ = np.zeros(n)
        occ[good] = small[f"occ@{t}"]
        corr = np.zeros((n, n))
        corr[np.ix_(good, good)] = small[f"corr@{t}"]
        focc, fcorr = full[f"occ@{t}"].copy(), full[f"corr@{t}"].copy()
        if only_good:
            keep = np.zeros(n, dtype=bool)
            keep[good] = True
            focc[~keep] = 0.0
            fcorr[~keep, :] = 0.0
            fcorr[:, ~keep] = 0.0
        worst = max(worst, float(np.abs(focc - occ).max()), float(np.abs(fcorr - corr).max()),
                    abs(full[f"energy@{t}"] - small[f"energy@{t}"]) / 10.0)
        scale = max(scale, float(occ.max()))
    r = {"outcome": "ok", "worst_vs_subregister": worst, "max_occupation": scale, "atom_order": full["atom_order"],
         "occ_full": full["occ@1.0"].tolist(), "occ_subregister": small["occ@1.0"].tolist()}
    if no_jump:
        ref, norms = heff_reference(sub, ops, et)
        err = 0.0
        for t in et:
            occ = np.zeros(n)
            occ[good] = ref[t]
            err = max(err, float(np.abs(full[f"occ@{t}"] - occ).max()))
        r.update({"worst_vs_heff": err, "norm2_at_end": norms[et[-1]], "occ_heff": ref[et[-1]].tolist()})
    return r


def noise_judge(ctx, spec, r):
    be = spec["backend"]
    ctx.count_case({k: spec[k] for k in ("kind", "mode", "backend", "n", "bad", "perm", "seed", "rseed", "relaxation", "dephasing")}
                   | {"depolarizing": spec.get("depolarizing", 0.0)}
                   | {"outcome": r["outcome"]}, nontrivial=any(spec["bad"]))
    if r["outcome"] == "raises":
        ctx.violation(f"emu-{be} raises with bad atoms and Lindblad noise: {r['exception']}: {r['message']}",
                      {"spec": spec, "result": r, "finding_key": f"noise-{be}-raises"})
        return
    bad = []
    if r["worst_vs_subregister"] > NOISE_TOL[be]:
        bad.append(f"differs from the run on the good-atom sub-register (same seed) by {r['worst_vs_subregister']:.3g}: "
                   f"occupation {r['occ_full']} vs {r['occ_subregister']}")
    if "worst_vs_heff" in r and r["worst_vs_heff"] > NOJUMP_TOL[be]:
        bad.append(f"no-jump trajectory differs from the normalised H_eff evolution by {r['worst_vs_heff']:.3g} "
                   f"(squared norm at the end {r['norm2_at_end']:.3g}): occupation {r['occ_full']} vs {r['occ_heff']}")
    if r["atom_order"] != [f"q{i}" for i in range(spec["n"])]:
        bad.append(f"atom_order {r['atom_order']}")
    if bad:
        ctx.violation(f"emu-{be} with bad atoms {spec['bad']} and Lindblad noise: " + "; ".join(bad),
                      {"spec": spec, "result": r, "finding_key": f"dark-atoms-with-noise-{be}"})


def noise_specs(ctx):
    rng = ctx.rng
    specs = []
    for i in range(ctx.n(3, 12)):
        n = rng.choice([3, 4, 4, 5]) if ctx.thorough() else rng.choice([3, 4])
        seed = rng.randrange(10 ** 6)
        k = rng.randint(1, n - 2)
        bad = [False] * n
        for j in rng.sample(range(n), k):
            bad[j] = True
        relax, deph = rng.choice([(3.0, 0.0), (0.0, 3.0), (2.0, 2.0)])
        perm = None
        if i % 2 == 1:
            perm = list(range(n))
            rng.shuffle(perm)
        # scripted no-jump trajectory (emu-mps) against the dense normalised H_eff evolution, and the density matrix
        specs.append(noise_spec("no-jump", "mps", n, bad, seed, 1, relax, deph, perm=perm))
        # real Monte-Carlo trajectories: same python `random` seed for the bad-atom run and the sub-register run
        for rseed in (rng.randrange(10 ** 6), rng.randrange(10 ** 6)):
            specs.append(noise_spec("same-seed", "mps", n, bad, seed, rseed, relax, deph, perm=perm))
        if n <= 4:
            specs.append(noise_spec("same-seed", "sv", n, bad, seed, 0, relax, deph))
            # a channel that can excite the bad atom: its couplings must really be switched off (rows AND columns);
            # make sure a bad atom sits after a good one it is coupled to
            bad2 = list(bad)
            if not any(bad2[j] and not bad2[i] for i in range(n) for j in range(i + 1, n)):
                bad2 = [False] * (n - 1) + [True]
            specs.append(noise_spec("same-seed", "sv", n, bad2, seed, 0, 0.0, 0.0, depolarizing=rng.choice([2.0, 4.0])))
    return specs


# ---- F. bad atoms with an interaction matrix that changes during the run (SLM mask ending) -----------------------------
SLM_TOL = {"sv": 1e-7, "mps": 1e-6}     # relative (+1) agreement with the run on the reduced register, same backend


def slm_spec(backend, n, bad, slm, seed, perm=None, steps=8, dt=20.0, switch_step=4):
    return {"kind": "slm", "backend": backend, "n": n, "bad": [bool(x) for x in bad], "slm": [bool(x) for x in slm],
            "seed": int(seed), "perm": perm, "steps": steps, "dt": dt, "switch_step": switch_step, "scale": 2.0}


class SwitchingU:
    """interaction matrix of a sequence with an SLM mask: rows/columns of the masked atoms are zero before t_switch"""

    def __init__(self, U, masked, t_switch):
        self.full = np.array(U, dtype=float)
        self.masked = self.full.copy()
        idx = [i for i, m in enumerate(masked) if m]
        self.masked[idx, :] = 0.0
        self.masked[:, idx] = 0.0
        self.t_switch = t_switch

    def __call__(self, t):
        return self.masked if t < self.t_switch else self.full


def slm_single_run(backend, prob, bad, spe, Uoft, perm, et):
    import emu_mps
    import emu_sv
    from pulser.backend import Energy, EnergySecondMoment, EnergyVariance, Occupation

    obs = [Occupation(evaluation_times=et), Energy(evaluation_times=et), EnergyVariance(evaluation_times=et),
           EnergySecondMoment(evaluation_times=et)]
    data = D.to_sequence_data(prob, bad_atoms=bad, state_prep_error=spe, U_of_t=Uoft)
    with warnings.catch_warnings():
        warnings.simplefilter("ignore")
        if backend == "mps":
            with Forced(perm if perm else list(range(prob["n"]))):
                res = emu_mps.MPSBackend._run_from_sequence_data(data, mps_config(obs, reorder=perm is not None))
        else:
            res = emu_sv.SVBackend._run_from_sequence_data(
                data, emu_sv.SVConfig(observables=obs, gpu=False, log_level=logging.CRITICAL))
    out = {}
    for t in et:
        out[t] = {"occ": np.array([float(x) for x in res.get_result("occupation", t)]),
                  "energy": float(res.get_result("energy", t)),
                  "energy_variance": float(res.get_result("energy_variance", t)),
                  "energy_second_moment": float(res.get_result("energy_second_moment", t))}
    return out


def slm_run(spec):
    prob = e2e_problem(spec)
    n, steps = spec["n"], spec["steps"]
    good = [i for i, x in enumerate(spec["bad"]) if not x]
    t_switch = prob["times"][spec["switch_step"]]
    et = [k / steps for k in range(1, steps + 1)]                     # after every step: before and after the switch
    Ufull = SwitchingU(prob["U"], spec["slm"], t_switch)
    sub = sub_problem(prob, good)
    Usub = SwitchingU(sub["U"], [spec["slm"][i] for i in good], t_switch)
    perm = spec["perm"]
    sub_perm = [good.index(a) for a in perm if a in good] if perm is not None else None
    try:
        full = slm_single_run(spec["backend"], prob, spec["bad"], 0.05, Ufull, perm, et)
        small = slm_single_run(spec["backend"], sub, [False] * len(good), 0.0, Usub, sub_perm, et)
    except Exception as ex:  # noqa: BLE001
        return {"outcome": "raises", "exception": type(ex).__name__, "message": str(ex)[:160]}
    # independent dense reference of the reduced register (energy with the Hamiltonian of the step just completed)
    st, Hs = D.evolve(sub["omega"], sub["delta"], sub["phi"], Usub, sub["times"], u_query="mid")
    worst, worst_ref, first = 0.0, 0.0, None
    for k, t in enumerate(et, start=1):
        occ = np.zeros(n)
        occ[good] = small[t]["occ"]
        d = float(np.abs(full[t]["occ"] - occ).max())
        for key in ("energy", "energy_variance", "energy_second_moment"):
            d = max(d, abs(full[t][key] - small[t][key]) / (1.0 + abs(small[t][key])))
        if d > worst:
            worst, first = d, {"t": t, "after_switch": k > spec["switch_step"],
                               "full": {k2: (v.tolist() if hasattr(v, "tolist") else v) for k2, v in full[t].items()},
                               "reduced": {k2: (v.tolist() if hasattr(v, "tolist") else v) for k2, v in small[t].items()}}
        worst_ref = max(worst_ref, abs(full[t]["energy"] - D.energy(st[k], Hs[k - 1])))
    return {"outcome": "ok", "worst_vs_reduced": worst, "worst_energy_vs_dense": worst_ref, "where": first,
            "u_changes": bool(np.abs(Usub.full - Usub.masked).max() > 1e-6)}


def slm_judge(ctx, spec, r):
    be = spec["backend"]
    ctx.count_case({k: spec[k] for k in ("kind", "backend", "n", "bad", "slm", "perm", "seed", "switch_step")}
                   | {"outcome": r["outcome"]}, nontrivial=any(spec["bad"]) and r.get("u_changes", False))
    if r["outcome"] == "raises":
        ctx.violation(f"emu-{be} raises with bad atoms and an interaction switch: {r['exception']}: {r['message']}",
                      {"spec": spec, "result": r, "finding_key": f"slm-{be}-raises"})
        return
    bad = []
    if r["worst_vs_reduced"] > SLM_TOL[be]:
        bad.append(f"differs from the run on the reduced register by (relative) {r['worst_vs_reduced']:.3g} at {r['where']}")
    if r["worst_energy_vs_dense"] > EN_TOL[be] * max(1, spec["n"]):
        bad.append(f"energy differs from the dense reference by {r['worst_energy_vs_dense']:.3g}")
    if bad:
        ctx.violation(f"emu-{be} with bad atoms {spec['bad']} and an SLM-like interaction switch after step "
                      f"{spec['switch_step']}: " + "; ".join(bad),
                      {"spec": spec, "result": r, "finding_key": f"dark-atoms-interaction-switch-{be}"})


def slm_specs(ctx):
    rng = ctx.rng
    specs = []
    for i in range(ctx.n(3, 12)):
        n = rng.choice([3, 4]) if not ctx.thorough() else rng.choice([3, 4, 4, 5])
        seed = rng.randrange(10 ** 6)
        bad = [False] * n
        for j in rng.sample(range(n), rng.randint(1, n - 2)):
            bad[j] = True
        good = [j for j in range(n) if not bad[j]]
        slm = [False] * n
        slm[rng.choice(good)] = True                      # at least one good atom is masked: the reduced U changes
        if rng.random() < 0.5:
            slm[rng.choice([j for j in range(n) if bad[j]])] = True
        perm = None
        if i % 2 == 1:
            perm = list(range(n))
            rng.shuffle(perm)
        sw = rng.choice([2, 4, 5])
        specs.append(slm_spec("mps", n, bad, slm, seed, perm=perm, switch_step=sw))
        specs.append(slm_spec("sv", n, bad, slm, seed, switch_step=sw))
    return specs


def corpus_specs():
    p = common.VERIF / "corpus" / "C25.json"
    return json.loads(p.read_text()) if p.exists() else []


# ---- driver ---------------------------------------------------------------------------------------------------------
def all_perms(n, rng, cap):
    ps = list(itertools.permutations(range(n)))
    if len(ps) > cap:
        ps = [tuple(range(n))] + rng.sample(ps, cap - 1)
    return [list(p) for p in ps]


def correspondence(ctx):
    import torch

    torch.set_num_threads(1)
    rng = ctx.rng
    sv_cases, mps_cases, pad_cases = [], [], []
    for n in range(1, 6):
        for bad in itertools.product([False, True], repeat=n):
            sv_cases.append((int_case(n, bad, True), None))
            if not any(bad):
                sv_cases.append((int_case(n, bad, False), None))
        sv_cases.append((int_case(n, [i == 0 for i in range(n)], False), None))       # mask ignored when spe == 0
        for init in (n, n + 1):
            for spe in (False, True):
                sv_cases.append((int_case(n, [i == 0 for i in range(n)], spe), init))
    for n in range(2, 6):
        cap = 24 if n <= 4 else ctx.n(5, 30)
        for perm in all_perms(n, rng, cap):
            for bad in itertools.product([False, True], repeat=n):
                if n == 4 and not ctx.thorough() and rng.random() < 0.5 and perm != list(range(n)):
                    continue
                mps_cases.append((int_case(n, bad, True, perm=perm), False))
            mps_cases.append((int_case(n, [i == 1 for i in range(n)], False, perm=perm), False))
        for dim in (2, 3):
            for bad in ([False] * n, [i == 0 for i in range(n)], [i != 0 for i in range(n)]):
                mps_cases.append((int_case(n, bad, True, perm=rot(n), dim=dim), False))
                mps_cases.append((int_case(n, bad, True, perm=rot(n), dim=dim), True))
                mps_cases.append((int_case(n, bad, False, perm=rot(n), dim=dim), True))
    pad_cases = [gen_pad_case(rng, malformed=(i % 6 == 5)) for i in range(ctx.n(150, 1500))]

    hist = {}
    for tag, cases, real_f, expr_f, cmp_f in (
            ("sv", sv_cases, lambda cx: sv_real(*cx), lambda cx: sv_expr(*cx), lambda cx, r, m: sv_compare(cx[0], r, m)),
            ("mps", mps_cases, lambda cx: mps_real(*cx), lambda cx: mps_expr(*cx), lambda cx, r, m: mps_compare(cx[0], r, m)),
            ("pad", pad_cases, pad_real, pad_expr, pad_compare)):
        ok, detail = True, ""
        try:
            reals = [real_f(c) for c in cases]
            ev = common.CoqEval("C25" + tag, HEADER)
            for c in cases:
                ev.add(expr_f(c))
            outs = ev.run()
            for c, r, o in zip(cases, reals, outs):
                d = cmp_f(c, r, parse(o))
                cc = c[0] if isinstance(c, tuple) else c
                outcome = r.get("outcome", r.get("ctor", "-")) if isinstance(r, dict) else "-"
                summary = ({"kind": tag, "n": cc["n"], "bad": cc["bad"], "perm": cc["perm"], "spe": cc["spe"], "dim": cc["dim"],
                            "init": c[1], "outcome": outcome} if tag != "pad" else
                           {"kind": tag, "shapes": cc["shapes"], "wh": cc["wh"], "dim": cc["dim"], "outcome": outcome})
                nontrivial = (any(cc["bad"]) and cc["spe"]) if tag != "pad" else (False in cc["wh"])
                ctx.count_case(summary, nontrivial)
                hist[f"{tag}/{outcome}"] = hist.get(f"{tag}/{outcome}", 0) + 1
                if d and ok:
                    ok, detail = False, f"case={summary} {d}"
                    ctx.extra[f"first_disagreement_{tag}"] = {"case": cc, "detail": d}
        except (common.CoqEvalError, ValueError, KeyError, TypeError) as ex:
            ok, detail = False, f"{type(ex).__name__}: {ex}"
        name = {"sv": "correspondence:Model.DarkSv==SVBackendImpl (stepper arguments + guards, exact)",
                "mps": "correspondence:Model.DarkMps==MPSBackendImpl (filter, qubit_count, make_H/update_H arguments, "
                       "accepted masks, exact)",
                "pad": "correspondence:Model.DarkMps padding==emu_mps.utils extended_*/get_extended_site_index + MPS ctor (exact)"}[tag]
        ctx.obligation(name, ok, detail, kind="correspondence")
    ctx.extra["correspondence_distribution"] = dict(sorted(hist.items()))
    ctx.extra["padding_variant_followed_by_the_code"] = (
        "fixed (inserted factors sized like the state)" if PAD_VARIANTS == {True} else
        "as analysed (inserted factors have physical dimension 2: F-14)" if PAD_VARIANTS == {False} else
        f"undetermined {sorted(PAD_VARIANTS)}")


def run(ctx):
    import torch

    torch.set_num_threads(1)
    common.coq_make(["Model/DarkSv.vo", "Model/DarkMps.vo"])
    common.standard_proof_stage(ctx, "C25", ["Properties/C25.vo"])
    for spec in corpus_specs():
        if spec.get("kind") == "noise":
            noise_judge(ctx, spec, noise_run(spec))
        elif spec.get("kind") == "slm":
            slm_judge(ctx, spec, slm_run(spec))
        else:
            e2e_judge(ctx, spec, e2e_run(spec))
    correspondence(ctx)
    worst = {"sv": 0.0, "mps": 0.0}
    for spec in e2e_specs(ctx):
        r = e2e_run(spec)
        if r["outcome"] == "ok":
            worst[spec["backend"]] = max(worst[spec["backend"]], r["occ_err"], r["corr_err"])
        e2e_judge(ctx, spec, r)
    ctx.extra["e2e_worst_error"] = worst
    nworst = {"vs_subregister": {"sv": 0.0, "mps": 0.0}, "vs_heff": 0.0, "min_norm2_no_jump": 1.0, "max_occupation": 0.0}
    for spec in noise_specs(ctx):
        r = noise_run(spec)
        if r["outcome"] == "ok":
            d = nworst["vs_subregister"]
            d[spec["backend"]] = max(d[spec["backend"]], r["worst_vs_subregister"])
            nworst["max_occupation"] = max(nworst["max_occupation"], r["max_occupation"])
            if "worst_vs_heff" in r:
                nworst["vs_heff"] = max(nworst["vs_heff"], r["worst_vs_heff"])
                nworst["min_norm2_no_jump"] = min(nworst["min_norm2_no_jump"], r["norm2_at_end"])
        noise_judge(ctx, spec, r)
    ctx.extra["noise_worst_error"] = nworst
    sworst = {"vs_reduced": {"sv": 0.0, "mps": 0.0}, "energy_vs_dense": {"sv": 0.0, "mps": 0.0}}
    for spec in slm_specs(ctx):
        r = slm_run(spec)
        if r["outcome"] == "ok":
            for k, key in (("vs_reduced", "worst_vs_reduced"), ("energy_vs_dense", "worst_energy_vs_dense")):
                sworst[k][spec["backend"]] = max(sworst[k][spec["backend"]], r[key])
        slm_judge(ctx, spec, r)
    ctx.extra["interaction_switch_worst_error"] = sworst
    ctx.rule = ("(a) integer SequenceData for every mask of 1-5 atoms (emu-sv) and every mask x permutation (emu-mps: all "
                "permutations for N<=4, sampled for N=5; both basis sizes; with/without initial state / state_prep_error): "
                "recorded solver inputs, filter, qubit_count and exception class vs vm_compute of the model; "
                "(b) random shape chains x masks (1/6 malformed) for the padding helpers and the MPS constructor; "
                "(c) end-to-end runs vs the dense reference of the good-atom sub-register; (d) bad atoms together with hand-built "
                "relaxation/dephasing Lindblad operators: bad-atom run vs the run on the good-atom sub-register under the same "
                "python `random` seed (emu-mps Monte-Carlo trajectories, emu-sv density matrix), and a scripted no-jump emu-mps "
                "trajectory vs the dense normalised H_eff evolution; (e) bad atoms with an interaction matrix that switches mid-run "
                "(SLM mask ending, U_of_t): occupation, energy, energy variance and second moment after every step vs the run on "
                "the reduced register and the dense reference. Non-trivial = at least one bad atom.")
    ctx.trusted_base += ["hand-written Model/DarkSv.v, Model/DarkMps.v (validated by the exact correspondences on every run)",
                         "C06_H_apply_dense / C05 (the Hamiltonians the backends apply are the dense ones the theorems speak about)",
                         "dense reference tools/props/_dense_ref.py (scipy expm) for the falsifier"]
    ctx.assumptions += ["the theorems are algebraic statements on the dense Hamiltonian of C06; that the time stepper keeps a "
                        "state supported on the sector inside it (any polynomial in H does) is not proved, it is validated "
                        f"end to end (occupation/correlation tolerance {OCC_TOL}, energy {EN_TOL} per atom)",
                        "surjectivity of sub_index onto the sub-register basis is not proved",
                        "noise combined with bad atoms: relaxation and dephasing only (channels that excite g, e.g. depolarising, "
                        "would legitimately excite a bad atom in emu-sv's density matrix and are outside the comparison)"]


def replay(ctx, path):
    rp = json.load(open(path))
    if "spec" in rp and rp["spec"].get("kind") == "slm":
        r = slm_run(rp["spec"])
        print("replay:", r)
        slm_judge(ctx, rp["spec"], r)
    elif "spec" in rp and rp["spec"].get("kind") == "noise":
        r = noise_run(rp["spec"])
        print("replay:", r)
        noise_judge(ctx, rp["spec"], r)
    elif "spec" in rp:
        r = e2e_run(rp["spec"])
        print("replay:", {k: v for k, v in r.items() if k not in ("occ", "occ_ref")})
        e2e_judge(ctx, rp["spec"], r)
    else:
        print("replay: no concrete input in this file (broken obligation):", rp.get("broken"))


META = {
    "category": "proof",
    "technique": "Coq proof on the dense Hamiltonian of C06 (all N, all masks, any ring) + list-routing theorems over all "
                 "permutations; exact parameter correspondence; dense-reference falsifier",
    "text": ("Proved for every N, every bad-atom mask and every coefficient ring: the Hamiltonian emu-sv builds after zeroing "
             "the bad atoms' drives has no matrix element between the sector 'bad atoms in g' and its complement, and on the "
             "sector equals entry for entry the Hamiltonian of the register without the bad atoms (sub_index embeds the "
             "sector, bit for bit). For emu-mps, for every permutation and mask: the reduced chain is the good atoms in "
             "internal order with their own drives and U restricted to good x good; padding re-inserts |g> factors exactly "
             "at the filtered positions; emu-mps accepts a mask iff >= 2 atoms are good and (basis size 2 or no bad atom) - "
             "hence the two refuted statements (F-13, F-14). Validated only: that the steppers preserve the sector "
             "(end-to-end vs dense reference)."),
    "note": ("Trusted: Coq kernel+VM; hand models tied by exact correspondences; C05/C06 for the link code->dense "
             "Hamiltonian; scipy expm in the falsifier. Theorems closed under the global context."),
}
