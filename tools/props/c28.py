"""C28 — noiseless evolution conserves norm, and energy when the drive is constant (DESIGN.md §4 C28).

Mostly VALIDATION: the conservation laws are not proved (they need exp and truncation control).
Coq layer (coq/Properties/C28.v, Proofs/AntiHermitian.v): the operator handed to krylov_exp is
(-i * real) * Hermitian, hence anti-Hermitian (cites C06_H_hermitian; MPO: mpo_hermitian by reference).
Tie of that layer: (1) fail-closed source pin of the three operator definitions, (2) runtime probe: krylov_exp
rebound in emu_sv.time_evolution / emu_mps.solver_utils, the captured `op` of real runs is tested for
anti-Hermiticity on random vectors.
Falsifier: constant and piecewise-constant hand-built SequenceData on both backends; |norm-1|, E(t)-E(t0),
<H^2>(t)-<H^2>(t0) within every constant window."""
import ast
import json
import logging
import warnings

import numpy as np

from props import _dense_ref as D
from vlib import common

# Bounds = SAFETY x (worst value observed on the current tree, see `calibration` in the evidence), expressed per
# step and relative to the backend's own tolerance so that they follow the configuration:
#   emu-sv : tol = krylov_tolerance;  emu-mps: tol = precision (truncation + Krylov per sweep).
# A dropped Hamiltonian term / non-Hermitian generator shows up at 1e-2..1 relative, far above any bound below.
SV_NORM = 10.0       # |norm - 1|            <= SV_NORM * steps * tol          (observed <= 3e-4)
SV_ENERGY = 10.0     # |E - E0| / scale      <= SV_ENERGY * steps * tol        (observed <= 4e-5; <H^2>: 2e-2)
MPS_NORM = 1.0       # |norm - 1|            <= MPS_NORM * steps * precision   (observed <= 1e-9)
MPS_ENERGY = 1e-4    # |E - E0| / scale      <= 1e-12 + MPS_ENERGY * steps * precision   (observed <= 8e-6 * steps * precision)
MPS_ENERGY2 = 0.1    # |<H^2> - <H^2>0| / scale^2 <= 2.5e-6 + MPS_ENERGY2 * steps * precision (observed <= 1e-2 * steps * precision;
                     # the floor is the fixed 1e-5 compression of the H^2 operator, observed <= 4e-8 at precision 1e-7)
MPS_E_FLOOR, MPS_E2_FLOOR = 1e-12, 2.5e-6   # <H^2> floor: >= 5 x the 4.4e-7 seen on XY chains at precision 1e-7
FLOOR = 1e-6         # absolute floor: torch.linalg.matrix_exp / rounding level effects (observed <= 6e-9) x >100

PINS = {
    "emu_sv/time_evolution.py": ["return -1j * dt * (ham * x)", "is_hermitian=True"],
    "emu_mps/solver_utils.py": ["time_step = -1j * _TIME_CONVERSION_COEFF * dt", "time_step = -_TIME_CONVERSION_COEFF * 1j * dt",
                               "return time_step * eff_h(x)", "_TIME_CONVERSION_COEFF = 0.001"],
}


def pin_stage(ctx):
    """fail closed: the statements the Coq lemmas are about must be present verbatim (modulo whitespace)"""
    missing = []
    for f, pats in PINS.items():
        src = (common.REPO / f).read_text()
        try:
            norm = {ast.unparse(n) for n in ast.walk(ast.parse(src)) if isinstance(n, (ast.Return, ast.Assign, ast.keyword))}
        except SyntaxError as ex:
            missing.append(f"{f}: {ex}")
            continue
        for p in pats:
            want = ast.unparse(ast.parse(p if not p.startswith("is_hermitian") else f"f({p})").body[0])
            want = want[2:-1] if p.startswith("is_hermitian") else want
            if want not in norm:
                missing.append(f"{f}: `{p}`")
    ctx.obligation("source-pin: operators handed to krylov_exp are (-i*real)*H as in Properties/C28.v",
                   not missing, "; ".join(missing), kind="translator")


# ---- problems ------------------------------------------------------------------------------------
def make_problem(rng, n, chain):
    windows = rng.choice([1, 1, 2, 3])
    per = rng.randint(2, 5)
    steps = windows * per
    dt = rng.choice([2.0, 5.0, 10.0, 20.0])
    if chain:
        prob = dict(n=n, steps=steps, xy=False)
        a = rng.uniform(0.95, 1.1)
        U = np.zeros((n, n))
        for i in range(n):
            for j in range(n):
                if i != j:
                    U[i, j] = rng.choice([3.0, 5.0, 8.0]) / (a * abs(i - j)) ** 6 if i < j else 0.0
        prob["U"] = U + U.T
        prob["omega"] = np.zeros((steps, n))
        prob["delta"] = np.zeros((steps, n))
        prob["phi"] = np.zeros((steps, n))
    else:
        prob = D.random_problem(rng, min(n, 6), steps, dt=dt)
        if n > 6:
            # D.random_problem cannot keep more than ~6 atoms apart in its 4x4 box (coincident atoms give
            # |H| dt ~ 1e5, for which no Krylov space of the allotted size converges): jittered grid instead
            side = int(np.ceil(np.sqrt(n)))
            a = rng.uniform(1.0, 1.3)
            pos = np.array([[a * (i % side) + rng.uniform(-0.1, 0.1), a * (i // side) + rng.uniform(-0.1, 0.1)]
                            for i in range(n)])
            d = np.linalg.norm(pos[:, None] - pos[None], axis=-1) + np.eye(n)
            prob.update(n=n, U=(5.0 / d ** 6) * (1 - np.eye(n)), omega=np.zeros((steps, n)),
                        delta=np.zeros((steps, n)), phi=np.zeros((steps, n)))
    local = rng.random() < 0.6
    for w in range(windows):
        om = np.array([rng.uniform(0.5, 6.0) for _ in range(n)]) if local else np.full(n, rng.uniform(0.5, 6.0))
        de = np.array([rng.uniform(-6.0, 6.0) for _ in range(n)]) if local else np.full(n, rng.uniform(-6.0, 6.0))
        ph = np.array([rng.uniform(-2.0, 2.0) for _ in range(n)]) if rng.random() < 0.5 else np.zeros(n)
        for k in range(w * per, (w + 1) * per):
            prob["omega"][k], prob["delta"][k], prob["phi"][k] = om, de, ph
    prob["times"] = [k * dt for k in range(steps + 1)]
    return {"prob": prob, "windows": windows, "per": per}


def _obs(et):
    from pulser.backend import Energy, EnergySecondMoment, StateResult
    return [Energy(evaluation_times=et), EnergySecondMoment(evaluation_times=et), StateResult(evaluation_times=et)]


class Probe:
    """krylov_exp replacement: forwards to the real one, samples anti-Hermiticity of the captured op"""

    def __init__(self, real, rng, every=7):
        self.real, self.rng, self.every, self.calls, self.worst = real, rng, every, 0, 0.0

    def __call__(self, op, v, **kw):
        import torch
        self.calls += 1
        if self.calls % self.every == 1:
            g = torch.Generator().manual_seed(self.rng.randrange(2 ** 31))
            x = torch.randn(v.shape, dtype=torch.float64, generator=g).to(v.dtype) + 1j * torch.randn(v.shape, dtype=torch.float64, generator=g).to(v.dtype)
            y = torch.randn(v.shape, dtype=torch.float64, generator=g).to(v.dtype) + 1j * torch.randn(v.shape, dtype=torch.float64, generator=g).to(v.dtype)
            a = torch.vdot(x.reshape(-1), op(y).reshape(-1))
            b = torch.vdot(y.reshape(-1), op(x).reshape(-1))
            scale = float(op(x).norm() * y.norm() + op(y).norm() * x.norm()) + 1e-300
            self.worst = max(self.worst, float(abs(a + b.conj())) / scale)
            assert kw.get("is_hermitian", False) is True, "krylov_exp called without is_hermitian=True"
        return self.real(op, v, **kw)


def run_case(case, backend, tol, rng):
    import emu_mps
    import emu_mps.solver_utils as SU
    import emu_sv
    import emu_sv.time_evolution as TE

    prob = case["prob"]
    times = prob["times"]
    et = [t / times[-1] for t in times]
    with warnings.catch_warnings():
        warnings.simplefilter("ignore")
        if backend == "sv":
            cfg = emu_sv.SVConfig(observables=_obs(et), log_level=logging.CRITICAL, gpu=False, krylov_tolerance=tol)
            mod, runner = TE, emu_sv.SVBackend._run_from_sequence_data
        else:
            cfg = emu_mps.MPSConfig(observables=_obs(et), log_level=logging.CRITICAL, precision=tol,
                                    optimize_qubit_ordering=False, num_gpus_to_use=0)
            mod, runner = SU, emu_mps.MPSBackend._run_from_sequence_data
        probe = Probe(mod.krylov_exp, rng)
        mod.krylov_exp = probe
        try:
            res = runner(D.to_sequence_data(prob, U_of_t=switch_U(case) if case.get("switch") else None), cfg)
        finally:
            mod.krylov_exp = probe.real
    stored = res.get_result_times("energy")
    E = [float(res.get_result("energy", t)) for t in stored]
    E2 = [float(res.get_result("energy_second_moment", t)) for t in stored]
    norms = []
    for t in stored:
        st = res.get_result("state", t)
        norms.append(float(st.data.norm()) if backend == "sv" else float(st.norm()))
    return E, E2, norms, probe


def measure(case, E, E2, norms):
    """per-window drifts; the energy reported at boundary k >= 1 is taken with the Hamiltonian of step k-1, at
    boundary 0 with row 0: inside window w the boundaries w*per+1 .. (w+1)*per (and 0 for w = 0) share one H"""
    prob, per = case["prob"], case["per"]
    out = {"norm": max(abs(x - 1.0) for x in norms), "dE": 0.0, "dE2": 0.0}
    for w in range(case["windows"]):
        ks = list(range(w * per + 1, (w + 1) * per + 1))
        if w == 0:
            ks = [0] + ks
        k0 = w * per
        scale = 1.0 + float(np.abs(prob["omega"][k0]).sum() / 2 + np.abs(prob["delta"][k0]).sum()
                            + np.triu(np.abs(prob["U"]), 1).sum())
        e = [E[k] for k in ks]
        e2 = [E2[k] for k in ks]
        out["dE"] = max(out["dE"], (max(e) - min(e)) / scale)
        out["dE2"] = max(out["dE2"], (max(e2) - min(e2)) / scale ** 2)
    return out


def gen_case(rng, tier_thorough):
    backend = rng.choice(["sv", "mps"])
    if backend == "sv":
        n = rng.choice([2, 3, 4, 5, 6, 8, 10, 12] if tier_thorough else [2, 3, 4, 6, 9])
        tol = rng.choice([1e-8, 1e-10])
    else:
        n = rng.choice([2, 3, 4, 6, 8, 12, 16, 20] if tier_thorough else [2, 3, 5, 8, 12])
        tol = rng.choice([1e-5, 1e-7])
    case = make_problem(rng, n, chain=(backend == "mps"))
    case.update(backend=backend, tol=tol, seed=rng.randrange(2 ** 31))
    return case


def check_case(ctx, case):
    import random
    rng = random.Random(case["seed"])
    try:
        E, E2, norms, probe = run_case(case, case["backend"], case["tol"], rng)
    except Exception as ex:  # noqa: BLE001
        import traceback
        tb = traceback.format_exc()
        if isinstance(ex, AssertionError) and "energy_second_moment_mps_impl" in tb:
            # known shape: the sanity assert `|Im <H^2>| < 1e-4` is ABSOLUTE while H @ H is compressed to a RELATIVE
            # precision of 1e-5, so a valid run with <H^2> ~ 1e2 (16 atoms, per-atom phases) can trip it
            ctx.violation("emu-mps: EnergySecondMoment raises AssertionError on a valid noiseless constant-drive run (absolute "
                          "tolerance 1e-4 on Im<H^2> although H@H is only compressed to relative precision 1e-5)",
                          {"case": _ser(case), "finding_key": "second-moment-imag-assert"})
            return
        ctx.violation(f"{case['backend']} raised on a constant-drive noiseless input: {ex!r}",
                      {"case": _ser(case), "finding_key": "conservation-raises"})
        return
    m = measure(case, E, E2, norms)
    steps = case["prob"]["steps"]
    unit = steps * case["tol"]
    sv = case["backend"] == "sv"
    lim_n = FLOOR + (SV_NORM if sv else MPS_NORM) * unit
    lim_e = (FLOOR + SV_ENERGY * unit) if sv else (MPS_E_FLOOR + MPS_ENERGY * unit)
    lim_e2 = lim_e if sv else (MPS_E2_FLOOR + MPS_ENERGY2 * unit)
    cal = ctx.extra.setdefault("calibration", {})
    fam = case.get("family")
    for k, v in (("norm", m["norm"]), ("dE", m["dE"]), ("dE2", m["dE2"])):
        key = f"{case['backend']}{'-' + fam if fam else ''}:{k}/(steps*tol)"
        cal[key] = max(cal.get(key, 0.0), v / unit)
    cal[f"{case['backend']}:antihermiticity_defect"] = max(cal.get(f"{case['backend']}:antihermiticity_defect", 0.0), probe.worst)
    if fam:
        cal[f"mps-{fam}:dE (relative to scale)"] = max(cal.get(f"mps-{fam}:dE (relative to scale)", 0.0), m["dE"])
        cal[f"mps-{fam}:dE2 (relative to scale^2)"] = max(cal.get(f"mps-{fam}:dE2 (relative to scale^2)", 0.0), m["dE2"])
    ctx.count_case({"backend": case["backend"], "family": fam, "xy": bool(case["prob"].get("xy")), "n": case["prob"]["n"], "steps": steps, "windows": case["windows"],
                    "tol": case["tol"], "norm_err": m["norm"], "dE": m["dE"]}, nontrivial=True)
    if probe.worst > 1e-10:
        ctx.violation(f"operator handed to krylov_exp is not anti-Hermitian (relative defect {probe.worst:.3g})",
                      {"case": _ser(case), "finding_key": "generator-not-antihermitian"})
    if m["norm"] > lim_n:
        ctx.violation(f"{case['backend']}: state norm drifts by {m['norm']:.3g} (> {lim_n:.3g}) in a noiseless run",
                      {"case": _ser(case), "measured": m, "finding_key": "norm-not-conserved-" + case["backend"]})
    if m["dE"] > lim_e or m["dE2"] > lim_e2:
        ctx.violation(f"{case['backend']}: energy / second moment drift {m['dE']:.3g} / {m['dE2']:.3g} (relative, > {lim_e:.3g} / {lim_e2:.3g}) "
                      "inside a window of constant drive",
                      {"case": _ser(case), "measured": m, "finding_key": "energy-not-conserved-" + case["backend"]})


# ---- constant drive, interaction matrix switching once (SLM-like) -----------------------------------------
# Within each window of constant (drive, matrix) the reported energy / second moment must be constant AND equal
# to the dense value of that window's Hamiltonian on the dense-evolved state.  Matrix query conventions (both
# are what the code does; C01_sv_matrix_query_times / C02 trace): emu-sv takes U at the START of every step
# (and U at the midpoint of step 0 for the Hamiltonian reported at t = 0); emu-mps takes U at the midpoint of
# step 0 and at the START of every later step.  The energy reported at boundary k >= 1 uses the Hamiltonian of
# step k-1.
SW_SV_DENSE = 10.0      # |E - E_dense| / scale <= FLOOR + SW_SV_DENSE * steps * krylov_tolerance   (observed <= 0.02)
SW_MPS_DENSE = 1e-4     # emu-mps (TDVP splitting + truncation on 2-7 atom chains), relative to scale; observed <= 2.3e-7


def switch_U(case):
    U = np.array(case["prob"]["U"], dtype=float)
    sw = case["switch"]
    Um = U.copy()
    for j in sw["targets"]:
        Um[j, :] = 0.0
        Um[:, j] = 0.0
    return lambda t: (Um if t < sw["t"] else U)


def gen_switch_case(rng, tier_thorough):
    backend = rng.choice(["sv", "mps"])
    n = rng.choice([2, 3, 4, 5, 6, 7] if tier_thorough else [2, 3, 4, 5])
    steps = rng.randint(4, 9)
    dt = rng.choice([2.0, 5.0, 10.0])
    case = make_problem(rng, n, chain=True)
    prob = case["prob"]
    # one drive window over the whole run
    for key in ("omega", "delta", "phi"):
        prob[key] = np.array([prob[key][0]] * steps)
    prob["steps"] = steps
    prob["times"] = [k * dt for k in range(steps + 1)]
    k = rng.randint(1, steps - 1) if rng.random() < 0.85 else 0
    t_sw = prob["times"][k] if rng.random() < 0.5 else prob["times"][k] + rng.uniform(0.05, 0.95) * dt
    targets = sorted(rng.sample(range(n), rng.randint(1, min(2, n - 1)))) if n > 1 else [0]
    case.update(backend=backend, tol=rng.choice([1e-8, 1e-10]) if backend == "sv" else rng.choice([1e-5, 1e-7]),
                seed=rng.randrange(2 ** 31), windows=1, per=steps, switch={"t": t_sw, "targets": targets})
    return case


def check_switch_case(ctx, case):
    import random
    import scipy.linalg as sla
    from props.c01 import dense_H

    rng = random.Random(case["seed"])
    try:
        E, E2, norms, probe = run_case(case, case["backend"], case["tol"], rng)
    except Exception as ex:  # noqa: BLE001
        ctx.violation(f"{case['backend']} raised on a constant-drive input with a switching matrix: {ex!r}",
                      {"case": _ser(case), "finding_key": "conservation-raises"})
        return
    prob = case["prob"]
    n, steps, times = prob["n"], prob["steps"], prob["times"]
    U_of_t = switch_U(case)
    sv = case["backend"] == "sv"
    mid0 = 0.5 * (times[0] + times[1])
    queries = [times[k] if (sv or k > 0) else mid0 for k in range(steps)]
    om, de, ph = prob["omega"][0], prob["delta"][0], prob["phi"][0]
    Hs = [dense_H(om, de, ph, np.asarray(U_of_t(q))) for q in queries]
    H_at0 = dense_H(om, de, ph, np.asarray(U_of_t(mid0)))   # both backends report t = 0 with U at the first midpoint
    psi = np.zeros(2 ** n, dtype=complex)
    psi[0] = 1.0
    ref = [psi]
    for k in range(steps):
        psi = sla.expm(-1j * Hs[k] * (times[k + 1] - times[k]) * 1e-3) @ psi
        ref.append(psi)
    scale = 1.0 + float(np.abs(om).sum() / 2 + np.abs(de).sum() + np.triu(np.abs(prob["U"]), 1).sum())
    # (1) equality with the dense value at every boundary
    worst_d, worst_k = 0.0, 0
    for k in range(steps + 1):
        H = H_at0 if k == 0 else Hs[k - 1]
        e = float(np.real(np.vdot(ref[k], H @ ref[k])))
        e2 = float(np.real(np.vdot(H @ ref[k], H @ ref[k])))
        d = max(abs(E[k] - e) / scale, abs(E2[k] - e2) / scale ** 2)
        if d > worst_d:
            worst_d, worst_k = d, k
    # (2) constancy inside each window of constant (drive, matrix)
    worst_c = 0.0
    s = 0
    while s < steps:
        e_ = s + 1
        while e_ < steps and np.array_equal(Hs[e_], Hs[s]):
            e_ += 1
        ks = list(range(s + 1, e_ + 1)) + ([0] if s == 0 and np.array_equal(H_at0, Hs[0]) else [])
        ee, ee2 = [E[k] for k in ks], [E2[k] for k in ks]
        worst_c = max(worst_c, (max(ee) - min(ee)) / scale, (max(ee2) - min(ee2)) / scale ** 2)
        s = e_
    unit = steps * case["tol"]
    lim_c = (FLOOR + SV_ENERGY * unit) if sv else (MPS_E2_FLOOR + 1.0 * unit)
    lim_d = (FLOOR + SW_SV_DENSE * unit) if sv else SW_MPS_DENSE
    cal = ctx.extra.setdefault("calibration", {})
    b = case["backend"]
    cal[f"{b}:switch dE/(steps*tol)"] = max(cal.get(f"{b}:switch dE/(steps*tol)", 0.0), worst_c / unit)
    kd = f"{b}:switch |E-dense|" + ("/(steps*tol)" if sv else " (relative)")
    cal[kd] = max(cal.get(kd, 0.0), worst_d / unit if sv else worst_d)
    nwin = 1 + sum(1 for k in range(1, steps) if not np.array_equal(Hs[k], Hs[k - 1]))
    ctx.count_case({"kind": "switch", "backend": b, "n": n, "steps": steps, "tol": case["tol"], "windows": nwin,
                    "t_switch": case["switch"]["t"], "const_err": worst_c, "dense_err": worst_d}, nontrivial=nwin >= 2)
    hist = ctx.extra.setdefault("switch_distribution", {})
    hk = f"{b}/windows={nwin}"
    hist[hk] = hist.get(hk, 0) + 1
    if worst_c > lim_c:
        ctx.violation(f"{b}: energy / second moment not constant ({worst_c:.3g} relative, > {lim_c:.3g}) inside a window of "
                      "constant drive and constant interaction matrix (matrix switches once during the run)",
                      {"case": _ser(case), "finding_key": "energy-not-conserved-after-matrix-switch-" + b})
    if worst_d > lim_d:
        ctx.violation(f"{b}: reported energy / second moment at boundary {worst_k} differ from the dense value of that "
                      f"window's Hamiltonian on the dense-evolved state ({worst_d:.3g} relative, > {lim_d:.3g})",
                      {"case": _ser(case), "finding_key": "energy-wrong-after-matrix-switch-" + b})


# ---- binding truncation on emu-mps: the normalisation clause is exact whatever the truncation discards ------------
# fill_results hands `1/norm * state` to every observable: every stored state has norm 1 to rounding level and every
# observable is evaluated on a normalised state, even when max_bond_dim / precision throw weight away at every SVD.
# Energy conservation is NOT asserted here: truncation (projection onto bond dimension 1-4) legitimately changes
# <H>; only its size is recorded in the evidence.
TRUNC_NORM = 1e-9


def gen_trunc_case(rng, tier_thorough):
    n = rng.choice([6, 8, 10, 12] if tier_thorough else [6, 8, 10])
    case = make_problem(rng, n, chain=True)
    prob = case["prob"]
    # strong constant drive so that entanglement (hence discarded weight) builds up quickly
    steps = prob["steps"]
    om = np.full(n, rng.uniform(6.0, 12.0))
    de = np.full(n, rng.uniform(-2.0, 6.0))
    for k in range(steps):
        prob["omega"][k], prob["delta"][k], prob["phi"][k] = om, de, np.zeros(n)
    dt = rng.choice([10.0, 20.0, 40.0])
    prob["times"] = [k * dt for k in range(steps + 1)]
    case.update(backend="mps", tol=rng.choice([1e-2, 3e-3, 1e-3]), max_bond_dim=rng.choice([1, 2, 2, 3, 4]),
                seed=rng.randrange(2 ** 31), windows=1, per=steps, trunc=True)
    return case


def check_trunc_case(ctx, case):
    import emu_mps
    from pulser.backend import Energy, Occupation, StateResult

    prob = case["prob"]
    times = prob["times"]
    et = [t / times[-1] for t in times]
    try:
        with warnings.catch_warnings():
            warnings.simplefilter("ignore")
            cfg = emu_mps.MPSConfig(observables=[StateResult(evaluation_times=et), Occupation(evaluation_times=et),
                                                 Energy(evaluation_times=et)],
                                    log_level=logging.CRITICAL, precision=case["tol"], max_bond_dim=case["max_bond_dim"],
                                    optimize_qubit_ordering=False, num_gpus_to_use=0)
            res = emu_mps.MPSBackend._run_from_sequence_data(D.to_sequence_data(prob), cfg)
    except Exception as ex:  # noqa: BLE001
        ctx.violation(f"emu-mps raised on a constant-drive noiseless input with binding truncation: {ex!r}",
                      {"case": _ser(case), "finding_key": "conservation-raises"})
        return
    stored = res.get_result_times("state")
    norms = [float(res.get_result("state", t).norm()) for t in stored]
    occ = np.array([[float(x) for x in res.get_result("occupation", t)] for t in stored])
    E = [float(res.get_result("energy", t)) for t in stored]
    nerr = max(abs(x - 1.0) for x in norms)
    oerr = max(0.0, float(-occ.min()), float(occ.max() - 1.0))
    bond = max(res.get_result("state", t).get_max_bond_dim() for t in stored)
    cal = ctx.extra.setdefault("calibration", {})
    cal["mps-truncated:|norm-1|"] = max(cal.get("mps-truncated:|norm-1|", 0.0), nerr)
    cal["mps-truncated:occupation outside [0,1]"] = max(cal.get("mps-truncated:occupation outside [0,1]", 0.0), oerr)
    scale = 1.0 + float(np.abs(prob["omega"][0]).sum() / 2 + np.abs(prob["delta"][0]).sum() + np.triu(np.abs(prob["U"]), 1).sum())
    cal["mps-truncated:energy drift (relative, recorded only)"] = max(
        cal.get("mps-truncated:energy drift (relative, recorded only)", 0.0), (max(E) - min(E)) / scale)
    ctx.count_case({"kind": "truncated", "n": prob["n"], "steps": prob["steps"], "precision": case["tol"],
                    "max_bond_dim": case["max_bond_dim"], "bond_reached": bond, "norm_err": nerr},
                   nontrivial=bond >= case["max_bond_dim"])
    if nerr > TRUNC_NORM:
        ctx.violation(f"emu-mps: a stored state has |norm-1| = {nerr:.3g} (> {TRUNC_NORM}) in a noiseless run with binding "
                      f"truncation (max_bond_dim {case['max_bond_dim']}, precision {case['tol']}): results are not normalised",
                      {"case": _ser(case), "norms": norms, "finding_key": "state-not-normalised-under-truncation"})
    if oerr > 1e-9:
        ctx.violation(f"emu-mps: an occupation leaves [0,1] by {oerr:.3g} under binding truncation",
                      {"case": _ser(case), "finding_key": "occupation-out-of-range-under-truncation"})


# ---- small max_bond_dim that does NOT bind on the state: <H^2> and the variance stay exact ------------------------
# max_bond_dim caps the STATE.  When the state's own bond dimension stays below the cap the evolution is the untruncated
# one, so under a constant drive <H^2> and the variance must stay constant, and (sizes within dense reach) equal
# <psi|H^2|psi> evaluated densely on the stored state.  (The H^2 operator of a chain of 8 needs bond dimension 13, of a
# 4x4 lattice 41: it must not be compressed with the state's cap.)
# Oracles: (i) a cap that does not bind on the state changes NOTHING: energy, <H^2> and variance equal those of the run
# with the default cap (same states) -- sharp for every size; (ii) up to 10 atoms they equal the dense contraction on the
# stored state; (iii) <H^2> / variance constant over the run up to the TDVP projection error of these cases.
CAP_DIFF = 1e-6         # |small-cap run - default-cap run| / max|<H^2>|     (unchanged tree: <= 1e-11, see calibration)
CAP_DENSE = 1e-5        # |reported - dense| / scale^2                       (unchanged tree: <= 4e-9)
CAP_SPREAD = 5e-2       # relative spread over the run                       (unchanged tree: <= 1.3e-3, TDVP error on lattices)


def gen_cap_case(rng, tier_thorough):
    shape = rng.choice(["chain", "chain", "lattice"])
    if shape == "chain":
        n = rng.choice([8, 10, 12, 16] if tier_thorough else [8, 10, 12])
        pos = np.array([[float(i), 0.0] for i in range(n)])
    else:
        side = rng.choice([3, 4] if tier_thorough else [3, 3, 4])
        n = side * side
        pos = np.array([[float(i % side), float(i // side)] for i in range(n)])
    u0 = rng.choice([5.0, 10.0, 20.0])
    d = np.linalg.norm(pos[:, None] - pos[None], axis=-1) + np.eye(n)
    steps = rng.randint(3, 6)
    dt = rng.choice([5.0, 10.0, 20.0])
    om = np.full(n, rng.uniform(2.0, 7.0))
    de = np.full(n, rng.uniform(-4.0, 4.0))
    prob = dict(n=n, steps=steps, xy=False, U=(u0 / d ** 6) * (1 - np.eye(n)), times=[k * dt for k in range(steps + 1)],
                omega=np.array([om] * steps), delta=np.array([de] * steps), phi=np.zeros((steps, n)))
    return {"prob": prob, "backend": "mps", "cap": True, "shape": shape, "tol": 1e-5, "windows": 1, "per": steps,
            "cap_choice": rng.choice([0, 0, 0, 1, 2]), "seed": rng.randrange(2 ** 31)}


def _mps_dense(state):
    """contract an emu-mps MPS into a dense vector (site 0 most significant)"""
    import torch
    acc = state.factors[0].detach().cpu()
    for f in state.factors[1:]:
        acc = torch.tensordot(acc, f.detach().cpu(), dims=1)
    return acc.reshape(-1).numpy()


def check_cap_case(ctx, case):
    import emu_mps
    from pulser.backend import Energy, EnergySecondMoment, EnergyVariance, StateResult
    from props.c01 import dense_H

    prob = case["prob"]
    n, times = prob["n"], prob["times"]
    et = [t / times[-1] for t in times]

    def run(cap):
        with warnings.catch_warnings():
            warnings.simplefilter("ignore")
            kw = {} if cap is None else {"max_bond_dim": cap}
            cfg = emu_mps.MPSConfig(observables=[StateResult(evaluation_times=et), Energy(evaluation_times=et),
                                                 EnergySecondMoment(evaluation_times=et), EnergyVariance(evaluation_times=et)],
                                    log_level=logging.CRITICAL, precision=case["tol"], optimize_qubit_ordering=False,
                                    num_gpus_to_use=0, **kw)
            return emu_mps.MPSBackend._run_from_sequence_data(D.to_sequence_data(prob), cfg)

    try:
        # first pass with the default cap: the bond dimension the state really needs, and the reference series
        res0 = run(None)
        chi = max(res0.get_result("state", t).get_max_bond_dim() for t in et)
        if "max_bond_dim" not in case:
            if chi >= 16:
                ctx.extra["cap_cases_skipped_entangled"] = ctx.extra.get("cap_cases_skipped_entangled", 0) + 1
                return
            case["max_bond_dim"] = [max(4, chi + 1), max(4, min(16, chi + 3)), 16][case["cap_choice"]]
        res = run(case["max_bond_dim"])
    except Exception as ex:  # noqa: BLE001
        ctx.violation(f"emu-mps raised on a constant-drive noiseless input with a small max_bond_dim: {ex!r}",
                      {"case": _ser(case), "finding_key": "conservation-raises"})
        return
    stored = res.get_result_times("state")
    bond = max(res.get_result("state", t).get_max_bond_dim() for t in stored)
    E = np.array([float(res.get_result("energy", t)) for t in stored])
    E2 = np.array([float(res.get_result("energy_second_moment", t)) for t in stored])
    V = np.array([float(res.get_result("energy_variance", t)) for t in stored])
    scale = 1.0 + float(np.abs(prob["omega"][0]).sum() / 2 + np.abs(prob["delta"][0]).sum() + np.triu(np.abs(prob["U"]), 1).sum())
    binding = bond >= case["max_bond_dim"]
    ref2 = max(float(np.abs(E2).max()), 1.0)
    spread = max(float(E2.max() - E2.min()), float(V.max() - V.min())) / ref2
    diff = 0.0
    for tag, series in (("energy", E), ("energy_second_moment", E2), ("energy_variance", V)):
        s0 = np.array([float(res0.get_result(tag, t)) for t in stored])
        diff = max(diff, float(np.abs(series - s0).max()) / (ref2 if tag != "energy" else scale))
    dense_err = None
    if n <= 10 and not binding:
        H = dense_H(prob["omega"][0], prob["delta"][0], prob["phi"][0], prob["U"])
        dense_err = 0.0
        for k, t in enumerate(stored):
            psi = _mps_dense(res.get_result("state", t))
            hp = H @ psi
            e, e2 = float(np.real(np.vdot(psi, hp))), float(np.real(np.vdot(hp, hp)))
            dense_err = max(dense_err, abs(E[k] - e) / scale, abs(E2[k] - e2) / scale ** 2, abs(V[k] - (e2 - e * e)) / scale ** 2)
    cal = ctx.extra.setdefault("calibration", {})
    if not binding:
        cal["mps-cap:relative spread of <H^2>/variance"] = max(cal.get("mps-cap:relative spread of <H^2>/variance", 0.0), spread)
        cal["mps-cap:|small cap - default cap| (relative)"] = max(cal.get("mps-cap:|small cap - default cap| (relative)", 0.0), diff)
        if dense_err is not None:
            cal["mps-cap:|reported - dense| / scale^2"] = max(cal.get("mps-cap:|reported - dense| / scale^2", 0.0), dense_err)
    ctx.count_case({"kind": "cap", "shape": case["shape"], "n": n, "steps": prob["steps"], "max_bond_dim": case["max_bond_dim"],
                    "state_bond": bond, "spread": spread, "dense_err": dense_err}, nontrivial=not binding)
    hist = ctx.extra.setdefault("cap_distribution", {})
    hk = f"{case['shape']}/n={n}/{'binding' if binding else 'not-binding'}"
    hist[hk] = hist.get(hk, 0) + 1
    if binding:
        return     # the cap truncates the state: conservation is not asserted (see the truncation cases)
    if diff > CAP_DIFF:
        ctx.violation(f"emu-mps: energy / <H^2> / variance change by {diff:.3g} (relative, > {CAP_DIFF}) when max_bond_dim is lowered "
                      f"to {case['max_bond_dim']} although the state only needs bond dimension {bond} (the cap must only act on the state)",
                      {"case": _ser(case), "second_moment": E2.tolist(), "variance": V.tolist(),
                       "finding_key": "second-moment-not-conserved-under-cap"})
    if spread > CAP_SPREAD:
        ctx.violation(f"emu-mps: <H^2> / variance vary by {spread:.3g} (relative, > {CAP_SPREAD}) under a constant noiseless drive "
                      f"with max_bond_dim={case['max_bond_dim']} although the state only needs bond dimension {bond}",
                      {"case": _ser(case), "second_moment": E2.tolist(), "variance": V.tolist(),
                       "finding_key": "second-moment-not-conserved-under-cap"})
    if dense_err is not None and dense_err > CAP_DENSE:
        ctx.violation(f"emu-mps: reported energy / <H^2> / variance differ from the dense contraction on the stored state by "
                      f"{dense_err:.3g} (relative to scale^2, > {CAP_DENSE}) with max_bond_dim={case['max_bond_dim']} "
                      f"(state bond dimension {bond})",
                      {"case": _ser(case), "second_moment": E2.tolist(), "finding_key": "second-moment-wrong-under-cap"})


# ---- emu-mps: Hamiltonians whose MPO site operators are NOT real symmetric ------------------------------------------
# XY (mw_global) exchange and Rydberg drives with a phase that is not a multiple of pi: a transposed site operator in
# an environment (H^T in place of H) is invisible for real symmetric factors and breaks energy conservation here.
def gen_sym_case(rng, tier_thorough, family, big=False):
    xy = family == "xy"
    if xy:
        n = rng.choice([5, 6, 7, 8, 10]) if big else rng.choice([4, 5, 6, 7, 8, 10])
    else:
        n = rng.choice([4, 5, 6, 8, 10, 12] if tier_thorough or big else [4, 5, 6, 8])
        if not big and rng.random() < 0.15:
            n = 3
    windows = rng.choice([1, 1, 2])
    per = rng.randint(2, 4)
    steps = windows * per
    dt = rng.choice([5.0, 10.0, 20.0]) if xy else rng.choice([30.0, 50.0])
    c = rng.choice([1.0, 2.0, 4.0]) if xy else rng.choice([2.0, 4.0, 8.0])
    U = np.zeros((n, n))
    for i in range(n):
        for j in range(n):
            if i != j:
                U[i, j] = c / abs(i - j) ** (3 if xy else 6)
    prob = dict(n=n, steps=steps, xy=xy, U=U, times=[k * dt for k in range(steps + 1)], omega=np.zeros((steps, n)),
                delta=np.zeros((steps, n)), phi=np.zeros((steps, n)))
    pm = rng.choice(["global", "local", "zero"]) if xy else rng.choice(["global", "local"])
    for w in range(windows):
        om = np.full(n, rng.uniform(2.0, 8.0) if xy else rng.uniform(4.0, 10.0))
        de = np.full(n, rng.uniform(-4.0, 4.0))
        if pm == "global":
            ph = np.full(n, rng.choice([0.4, 1.0, 2.0, -1.3, 2.6]))
        elif pm == "local":
            ph = np.array([rng.uniform(0.2, 2.9) * rng.choice([-1, 1]) for _ in range(n)])
        else:
            ph = np.zeros(n)
        for k in range(w * per, (w + 1) * per):
            prob["omega"][k], prob["delta"][k], prob["phi"][k] = om, de, ph
    return {"prob": prob, "windows": windows, "per": per, "backend": "mps", "family": family, "phase_mode": pm,
            "tol": rng.choice([1e-5, 1e-7]) if xy else 1e-7, "seed": rng.randrange(2 ** 31)}


def _ser(case):
    c = dict(case)
    c["prob"] = {k: (v.tolist() if hasattr(v, "tolist") else v) for k, v in case["prob"].items()}
    return c


def _deser(c):
    c = dict(c)
    p = dict(c["prob"])
    for k in ("omega", "delta", "phi", "U"):
        p[k] = np.array(p[k])
    c["prob"] = p
    return c


def corpus_cases():
    p = common.VERIF / "corpus" / "C28.json"
    return [_deser(c) for c in json.loads(p.read_text())] if p.exists() else []


def run(ctx):
    common.standard_proof_stage(ctx, "C28", ["Properties/C28.vo"])
    pin_stage(ctx)
    for c in corpus_cases():
        (check_cap_case if c.get("cap") else check_trunc_case if c.get("trunc") else check_switch_case if c.get("switch") else check_case)(ctx, c)
    for _ in range(ctx.n(30, 500)):
        check_case(ctx, gen_case(ctx.rng, ctx.thorough()))
    for _ in range(ctx.n(16, 300)):
        check_switch_case(ctx, gen_switch_case(ctx.rng, ctx.thorough()))
    for _ in range(ctx.n(10, 150)):
        check_trunc_case(ctx, gen_trunc_case(ctx.rng, ctx.thorough()))
    for _ in range(ctx.n(8, 100)):
        check_cap_case(ctx, gen_cap_case(ctx.rng, ctx.thorough()))
    nsym = ctx.n(12, 240)
    for i in range(nsym):   # alternate XY / Rydberg-with-phase; the first ones of each family are forced to N >= 5
        check_case(ctx, gen_sym_case(ctx.rng, ctx.thorough(), ["xy", "phase"][i % 2], big=i < 8))
    cal = ctx.extra.get("calibration", {})
    ok = all(v <= 1e-10 for k, v in cal.items() if k.endswith("antihermiticity_defect"))
    ctx.obligation("correspondence:captured krylov_exp operators of real runs are anti-Hermitian (random-vector probe)",
                   ok and bool(cal), json.dumps(cal), kind="correspondence")
    ctx.rule = ("constant and piecewise-constant (1-3 windows of 2-5 steps) hand-built SequenceData, global or per-atom "
                "drives with phases; emu-sv 2-12 atoms (random planar registers, krylov_tolerance 1e-8/1e-10), emu-mps "
                "2-20 atoms (1D chains, 1/r^6 interactions, precision 1e-5/1e-7); Energy, EnergySecondMoment and "
                "StateResult at every step boundary; every such case is non-trivial. Plus emu-mps families whose MPO site "
                "operators are not real symmetric: XY (mw_global) chains of 4-10 atoms (1/r^3 exchange, dt 5-20 ns, phase zero / "
                "global / per-atom) and Rydberg chains of 3-12 atoms with constant global or per-atom phases that are not "
                "multiples of pi (dt 30-50 ns, precision 1e-7), 1-2 windows: energy and second moment per window. Plus constant-drive runs (2-7 atom chains, "
                "both backends) whose interaction matrix switches once (rows/columns of 1-2 atoms zero before t_switch, "
                "on a grid time or inside a step): energy and second moment constant inside every window of constant "
                "(drive, matrix) and equal to the dense value of the window's Hamiltonian on the dense-evolved state; "
                "non-trivial = the run really has >= 2 matrix windows. Plus emu-mps runs with BINDING truncation (6-12 atom chains, "
                "strong constant drive, max_bond_dim 1-4, precision 1e-2..1e-3): every stored state has |norm-1| <= 1e-9 and "
                "every occupation lies in [0,1]; energy conservation is not asserted there (truncation changes <H>; the "
                "drift is only recorded); non-trivial = the bond dimension cap is reached. Plus emu-mps runs with a SMALL max_bond_dim "
                "(4..16) that does not bind on the state (chains of 8-16, 3x3 / 4x4 lattices, weakly entangling constant drive; "
                "the cap is chosen above the bond dimension measured in a first pass with the default cap): energy, <H^2> and variance "
                "identical to that first pass, constant over the run and, up to 10 atoms, energy / <H^2> / variance equal to the dense contraction on the stored state")
    ctx.trusted_base += ["C06_H_hermitian / mpo_hermitian for the Hermiticity of the two Hamiltonians",
                         "source pin + random-vector probe tie the Coq lemmas' operator shapes to the code"]
    ctx.assumptions += [
        "ON THE REAL BACKENDS CONSERVATION IS VALIDATED, NOT PROVED: norm, energy and second moment are measured on the real "
        "backends and compared with bounds (1..10) x steps x backend tolerance, i.e. >= 100 x the largest drift observed on the current tree (evidence: calibration)",
        "the conservation THEOREMS hold in exact arithmetic under the premises StarLaws (three laws of an abstract matrix "
        "exponential + *-algebra / inner-product laws); 'exp of anti-Hermitian is unitary' is derived from them; that "
        "krylov_exp computes such an exponential is validated only",
        "emu-mps bounds hold for the tested regime (small bond dimension, nearest-neighbour dominated chains)"]
    ctx.extra["not_proved"] = ["norm conservation", "energy / second-moment conservation", "effect of MPS truncation"]


def replay(ctx, path):
    rp = json.load(open(path))
    if "case" in rp:
        c = _deser(rp["case"])
        (check_cap_case if c.get("cap") else check_trunc_case if c.get("trunc") else check_switch_case if c.get("switch") else check_case)(ctx, c)


META = {
    "category": "proof",
    "technique": ("Coq: whole-run conservation theorems over an abstract non-commutative matrix *-algebra whose "
                  "exponential is constrained only by three laws (premises) + generator anti-Hermitian over any ring "
                  "with involution (citing C06_H_hermitian) + source pin and runtime probe; conservation falsifier on "
                  "both backends incl. runs whose interaction matrix switches"),
    "text": ("Proved (closed theorems, every number of steps, every dt list): from the premises StarLaws (associativity, "
             "action, adjoint/inner-product law, scalar laws and the three exponential laws exp(A^+)=exp(A)^+, "
             "exp(A)exp(-A)=1, A exp(c.A)=exp(c.A) A): 'exp of an anti-Hermitian operator is unitary' (now a derived "
             "lemma); every propagator exp(s.H) with anti-real s and Hermitian H is unitary; the ordered fold of any list "
             "of such propagators (C01's fold shape; instantiated on the emu-sv step loop) preserves <psi|psi> at every "
             "step; inside a window of constant H, <H>, <H H> and the norm are the same at every step. Premises "
             "satisfiable with non-trivial unitaries (dual-number instance). Also: (anti-real scalar) x (Hermitian) is "
             "anti-Hermitian; the scalars -1j*dt, -1j*c*dt, -c*1j*dt used by EvolveStateVector.evolve / evolve_pair / "
             "evolve_single are anti-real; with C06 the emu-sv generator is anti-Hermitian for every N. NOT proved, "
             "VALIDATED only: that krylov_exp approximates that exponential and that emu-mps truncation preserves the "
             "laws: norm, energy and <H^2> per constant (drive, matrix) window are measured on emu-sv (2-12 atoms) and "
             "emu-mps (2-20 atom chains) against bounds of 1-10 x steps x tolerance (>= 100 x the observed drift), and "
             "compared with dense values when the interaction matrix switches."),
    "note": ("PREMISES of the conservation theorems (explicit hypotheses, no Axiom/Parameter): the record StarLaws of "
             "Proofs/StarAlgProofs.v, in particular the three laws of the abstract matrix exponential m_exp; they are not "
             "proved for any concrete exponential of complex matrices (shown satisfiable on a dual-number algebra). "
             "Axioms under Print Assumptions: functional_extensionality_dep only (adjoint-form restatement). MPO "
             "Hermiticity is cited (MpoHamProofs.mpo_hermitian), not re-instantiated. Krylov approximation of exp and "
             "MPS truncation remain validated only."),
}
