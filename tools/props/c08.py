"""C08 — Lanczos ground-state search is variational and meets its residual (DESIGN.md §4 C08).

Proved (Coq): control contract of krylov_energy_minimization(_impl) / _lowest_eigenvector_krylov_method over oracle
streams (termination bound, converged <-> trigger, restart bookkeeping, wrapper raises iff not converged), which
Ritz pair is returned (first minimiser of the residual estimate of the last cycle; the last iteration with estimate
< tolerance when converged without breakdown), the Lanczos relation by construction and the unit norm of the
returned vector over an abstract module.  Tie: hand-written model + (1) exact correspondence of the control outcome
from logged oracle values, (2) tol correspondence of alphas/betas of the Lanczos recurrence for dimension <= 6.
Validated only (falsifier vs numpy.linalg.eigvalsh): energy >= lambda_min, energy = Rayleigh quotient and true
residual < tolerance in floating point (loss of orthogonality is outside the theorems).
"""
import json
import math

from vlib import common
from props import c07 as _c07

HEADER = """From Coq Require Import ZArith List PrimFloat.
Import ListNotations.
From EV Require Import Base.Arith Model.KrylovExp Model.KrylovGS.
Open Scope float_scope."""

ERRCODES = {"ValueError:Starting": 11, "ValueError:Ritz": 12, "RecursionError": 13, "IndexError": 14}
REL_INDET = 1e-3
ROUND = 1e-9     # rounding allowance factor, times max(1, |H|_2)


def build_case(case):
    import numpy as np
    if case.get("explicit"):
        e = case["explicit"]
        H = np.array(e["H_re"], dtype=float) + 1j * np.array(e["H_im"], dtype=float)
        v = np.array(e["v_re"], dtype=float) + 1j * np.array(e["v_im"], dtype=float)
        return H, v
    r = _c07._np_rng(case["seed"])
    d = case["dim"]
    h, lam, q = _c07._hermitian(r, d, case["spectrum"])
    H = h * case["hnorm"]
    if case["start"] == "random":
        v = r.randn(d) + 1j * r.randn(d)
    elif case["start"] == "basis":
        v = np.zeros(d, dtype=complex)
        v[r.randint(0, d)] = 1.0
    elif case["start"] == "eigencombo":
        k = max(1, min(d, case["n_eig"]))
        idx = r.choice(d, k, replace=False)
        v = q[:, idx] @ (r.randn(k) + 1j * r.randn(k))
    elif case["start"] == "near_excited":
        # almost an excited eigenvector: the ground state component is tiny
        j = int(np.argmax(lam))
        u = r.randn(d) + 1j * r.randn(d)
        v = q[:, j] + case["eps"] * u / np.linalg.norm(u)
    else:
        raise ValueError(case["start"])
    return H, v * case["vscale"]


def gen_case(rng, small=False):
    dim = rng.randint(1, 6) if small else rng.choice([rng.randint(1, 8), rng.randint(1, 40), rng.randint(1, 128)])
    c = {"kind": "operator-small" if small else "operator",
         "spectrum": rng.choice(["uniform", "uniform", "clustered", "degenerate", "gapped"]),
         "seed": rng.getrandbits(31), "dim": dim, "hnorm": 10 ** rng.uniform(-2, 2),
         "start": rng.choice(["random", "random", "basis", "eigencombo", "near_excited"]),
         "n_eig": rng.randint(1, 6), "eps": 10 ** rng.uniform(-9, -2),
         "vscale": rng.choice([1.0, 1.0, 10 ** rng.uniform(-5, 5)]),
         "residual_tol": 10 ** rng.uniform(-10, -3), "norm_tol": 10 ** rng.uniform(-12, -6),
         "max_dim": rng.randint(1, 6) if small else rng.choice([100, rng.randint(1, 10), rng.randint(1, 100)]),
         "max_restarts": rng.choice([0, 0, 1, 2, 5, 100])}
    if c["max_restarts"] == 100 and c["max_dim"] > 20:
        c["max_restarts"] = 3      # cost bound of the check, not of the property
    return c


def gen_malformed(rng):
    c = gen_case(rng, small=True)
    how = rng.choice(["zero_v", "tiny_v", "maxdim0", "nan_op", "tol0", "negtol"])
    c["kind"] = "malformed:" + how
    if how == "zero_v":
        c["vscale"] = 0.0
    elif how == "tiny_v":
        c["vscale"] = 1e-14
    elif how == "maxdim0":
        c["max_dim"] = 0
    elif how == "nan_op":
        c["hnorm"] = float("nan")
    elif how == "tol0":
        c["residual_tol"] = 0.0
        c["norm_tol"] = 0.0
    elif how == "negtol":
        c["residual_tol"] = -1.0
    return c


def corpus_cases():
    p = common.VERIF / "corpus" / "C08.json"
    return json.loads(p.read_text()) if p.exists() else []


# ---------------------------------------------------------------------------------------------
def real_run(case):
    """Run krylov_energy_minimization_impl (and the public wrapper's logic) with logging wrappers bound to the
    module-level helper names; restore them afterwards."""
    import importlib
    import torch
    kem = importlib.import_module("emu_base.math.krylov_energy_min")
    H, v = build_case(case)
    Ht = torch.tensor(H, dtype=torch.complex128)
    vt = torch.tensor(v, dtype=torch.complex128)
    cycles = []   # per cycle: dict(vnorm, betas, alphas, ys, rnorms, ritz_vecs)
    saved = {n: getattr(kem, n) for n in ("_lowest_eigenvector_krylov_method", "_next_lanczos_iteration",
                                          "_lowest_ritz_pair_tridiagonal", "_ritz_vector")}
    n_op = [0]

    def op(x):
        n_op[0] += 1
        return Ht @ x

    def lowest(*a, **k):
        v_init = k["v_init"] if "v_init" in k else a[1]
        cycles.append({"vnorm": float(v_init.norm()), "betas": [], "alphas": [], "ys": [], "rnorms": [], "vecs": []})
        return saved["_lowest_eigenvector_krylov_method"](*a, **k)

    def next_l(op_, vs, alphas, betas):
        w = saved["_next_lanczos_iteration"](op_, vs, alphas, betas)
        i = len(vs) - 1
        cycles[-1]["betas"].append(float(betas[i]))
        cycles[-1]["alphas"].append(float(alphas[i]))
        return w

    def ritz_pair(al, be):
        e, y = saved["_lowest_ritz_pair_tridiagonal"](al, be)
        cycles[-1]["ys"].append(y.clone())
        return e, y

    def ritz_vec(coefficients, basis):
        rv = sum(c * vec for c, vec in zip(coefficients, basis))     # same expression as the source
        cycles[-1]["rnorms"].append(float(rv.norm()))
        out = saved["_ritz_vector"](coefficients, basis)
        cycles[-1]["vecs"].append(out)
        return out

    out = {"exc": None, "H": H, "v": v}
    try:
        kem._lowest_eigenvector_krylov_method = lowest
        kem._next_lanczos_iteration = next_l
        kem._lowest_ritz_pair_tridiagonal = ritz_pair
        kem._ritz_vector = ritz_vec
        try:
            r = kem.krylov_energy_minimization_impl(op, vt.clone(), residual_tolerance=case["residual_tol"],
                                                    norm_tolerance=case["norm_tol"], max_krylov_dim=case["max_dim"],
                                                    max_restarts=case["max_restarts"])
        except ValueError as ex:
            out["exc"] = "ValueError:" + ("Starting" if "Starting" in str(ex) else "Ritz")
            r = None
        except IndexError:
            out["exc"] = "IndexError"
            r = None
        except RuntimeError as ex:     # torch.linalg.eigh refused its input (an oracle of the model raised)
            out["exc"] = "OracleError:" + type(ex).__name__
            r = None
    finally:
        for n, f in saved.items():
            setattr(kem, n, f)
    out["n_op"] = n_op[0]
    out["cycles"] = cycles
    if r is not None:
        best = None
        if cycles:
            for j, vec in enumerate(cycles[-1]["vecs"]):
                if vec is r.ground_state:
                    best = j
        out.update(converged=bool(r.converged), happy=bool(r.happy_breakdown), iters=int(r.iteration_count),
                   restart=int(r.restart_count), best=best, state=r.ground_state, energy=float(r.ground_energy),
                   resid_est=float(r.residual_norm))
        # the wrapper's logic on the same result (krylov_energy_minimization_impl rebound to return it)
        saved_impl = kem.krylov_energy_minimization_impl
        try:
            kem.krylov_energy_minimization_impl = lambda **k: r
            try:
                gs, en = kem.krylov_energy_minimization(op, vt.clone(), case["norm_tol"], case["residual_tol"],
                                                        case["max_dim"])
                out["pub_exc"] = None
                out["pub_same"] = gs is r.ground_state and en == float(r.ground_energy)
            except RecursionError:
                out["pub_exc"] = "RecursionError"
        finally:
            kem.krylov_energy_minimization_impl = saved_impl
    # oracle streams
    for c in cycles:
        c["resids"] = [abs(b * float(y[j])) for j, (b, y) in enumerate(zip(c["betas"], c["ys"]))]
    return out


def control_expr(case, run):
    fl = common.float_lit
    l1 = lambda xs: "[" + "; ".join(fl(x) for x in xs) + "]"
    l2 = lambda key: "[" + "; ".join(l1(c[key]) for c in run["cycles"]) + "]"
    # a cycle that raised before computing a value leaves its stream short: pad rnorm with the value that raises
    args = (f"float_arith infinity {fl(1e-12)} (stream2 nan {l2('betas')}) (stream2 nan {l2('resids')}) "
            f"(stream2 nan {l2('rnorms')}) (stream nan {l1([c['vnorm'] for c in run['cycles']])}) "
            f"{fl(case['norm_tol'])} {fl(case['residual_tol'])} {case['max_dim']} {case['max_restarts'] + 1}")
    return f"(gs_outcome (gmin_impl {args}), gs_outcome (gmin_public {args}))"


def impl_outcome(run):
    if run["exc"]:
        a = (ERRCODES[run["exc"]], (False, (False, (0, (0, None)))))
        return (a, a)
    b = None if run["best"] is None else ("Some", run["best"])
    a = (0, (run["converged"], (run["happy"], (run["iters"], (run["restart"], b)))))
    if run["pub_exc"]:
        return (a, (ERRCODES[run["pub_exc"]], (False, (False, (0, (0, None))))))
    return (a, a)


# ---------------------------------------------------------------------------------------------
def property_check(ctx, case, run, stats):
    import numpy as np
    mal = case["kind"].startswith("malformed")
    if run["exc"] is not None:
        if not mal:
            ctx.violation(f"ground-state search raised {run['exc']} on a Hermitian operator and non-zero start vector",
                          {"case": case, "finding_key": "raises-" + run["exc"].replace(":", "-")})
        return "raised"
    if not run["converged"] and not run["happy"]:
        if run["pub_exc"] != "RecursionError":
            ctx.violation("krylov_energy_minimization returned although neither converged nor happy_breakdown",
                          {"case": case, "finding_key": "nonconverged-returned"})
    elif run["pub_exc"] is not None or not run.get("pub_same"):
        ctx.violation("krylov_energy_minimization raised / returned something else although converged",
                      {"case": case, "finding_key": "converged-raised"})
    if mal:
        return "malformed"
    H = run["H"]
    psi = run["state"].numpy().reshape(-1)
    E = run["energy"]
    hn = float(np.linalg.norm(H, 2)) if H.size else 0.0
    allow = ROUND * max(1.0, hn)
    nrm = float(np.linalg.norm(psi))
    if abs(nrm - 1.0) > 1e-9:
        ctx.violation(f"returned vector has norm {nrm!r}", {"case": case, "finding_key": "not-unit"})
    if run["iters"] == 0 or not math.isfinite(E):
        return "no-iteration"      # max_krylov_dim = 0: (q0, inf) is returned, nothing to compare
    rq = float(np.real(np.vdot(psi, H @ psi))) / nrm ** 2
    lam_min = float(np.linalg.eigvalsh(H)[0])
    stats["max_rq_dev"] = max(stats.get("max_rq_dev", 0.0), abs(E - rq) / max(1.0, hn))
    if abs(E - rq) > allow:
        ctx.violation(f"energy {E!r} differs from the Rayleigh quotient {rq!r} of the returned vector by "
                      f"{abs(E - rq):.3e} > {allow:.1e}", {"case": case, "finding_key": "energy-not-rayleigh"})
    if E < lam_min - allow:
        ctx.violation(f"energy {E!r} is below the lowest eigenvalue {lam_min!r}",
                      {"case": case, "finding_key": "below-ground"})
    if run["converged"] and not run["happy"]:
        true_res = float(np.linalg.norm(H @ psi - E * psi))
        thr = case["residual_tol"] + allow
        stats["max_res_ratio"] = max(stats.get("max_res_ratio", 0.0), true_res / thr)
        if abs(true_res - thr) <= REL_INDET * thr:
            stats["indeterminate"] = stats.get("indeterminate", 0) + 1
        elif true_res > thr:
            ctx.violation(f"converged without breakdown but |H psi - E psi| = {true_res:.3e} >= residual_tolerance "
                          f"{case['residual_tol']:.3e} (+ rounding {allow:.1e}); estimate was {run['resid_est']:.3e}",
                          {"case": case, "finding_key": "residual-above-tolerance"})
        return "converged"
    return "happy" if run["happy"] else "nonconverged"


# ---------------------------------------------------------------------------------------------
def lanczos_expr(case, run):
    fl = common.float_lit
    cx = lambda z: f"({fl(float(z.real))}, {fl(float(z.imag))})"
    vec = lambda xs: "[" + "; ".join(cx(complex(x)) for x in xs) + "]"
    M = "[" + "; ".join(vec(row) for row in run["H"]) + "]"
    n = len(run["cycles"][0]["betas"])
    return f"GF.lanczos_float {M} {vec(run['v'])} {n}"


def lanczos_compare(case, run, parsed):
    import numpy as np
    als, bes = parsed
    c0 = run["cycles"][0]
    scale = max(1e-300, float(np.linalg.norm(run["H"], 2)))
    # every normalisation w / beta amplifies the rounding error of w by |H| / beta: the comparison is only
    # meaningful while the accumulated amplification keeps 1e-16 * amp two orders below the tolerance
    amp = 1.0
    for b in c0["betas"][:-1]:
        if not math.isfinite(b) or b <= 0:
            return True, "", True
        amp *= max(1.0, scale / b)
    if 1e-16 * amp > 1e-11:
        return True, "", True
    if len(als) != len(c0["alphas"]) or len(bes) != len(c0["betas"]):
        return False, f"lengths {len(als)},{len(bes)} vs {len(c0['alphas'])}", False
    da = max([abs(a - b) for a, b in zip(als, c0["alphas"])] + [0.0]) / scale
    db = max([abs(a - b) for a, b in zip(bes, c0["betas"])] + [0.0]) / scale
    return (da <= 1e-9 and db <= 1e-9), f"max rel diff alphas={da:.2e} betas={db:.2e}", False


def run(ctx):
    from vlib.coqparse import parse

    rc, out = common.coq_make(["Model/KrylovGS.vo"])
    ctx.obligation("build:Model/KrylovGS.vo", rc == 0, out, kind="build")
    model_ok = rc == 0
    common.standard_proof_stage(ctx, "C08", ["Properties/C08.vo"])

    cases = list(corpus_cases())
    cases += [gen_case(ctx.rng) for _ in range(ctx.n(90, 1000))]
    cases += [gen_case(ctx.rng, small=True) for _ in range(ctx.n(40, 300))]
    cases += [gen_malformed(ctx.rng) for _ in range(ctx.n(25, 150))]
    runs, stats, hist = [], {}, {}
    for c in cases:
        r = real_run(c)
        runs.append(r)
        verdict = property_check(ctx, c, r, stats)
        key = f"{c['kind'].split(':')[0]}/{c['spectrum']}/{verdict}"
        hist[key] = hist.get(key, 0) + 1
    ctx.extra["input_distribution"] = dict(sorted(hist.items()))
    ctx.extra["falsifier"] = {
        "acceptance_rule": (f"unit norm within 1e-9; |E - <psi|H|psi>| <= {ROUND}*max(1,|H|_2); "
                            f"E >= eigvalsh(H)[0] - {ROUND}*max(1,|H|_2); converged without breakdown => "
                            f"|H psi - E psi| <= residual_tolerance + {ROUND}*max(1,|H|_2) (within {REL_INDET} relative: "
                            "indeterminate); neither flag => the wrapper raises RecursionError"),
        "max_rayleigh_deviation_over_scale": stats.get("max_rq_dev", 0.0),
        "max_true_residual_over_threshold": stats.get("max_res_ratio", 0.0),
        "indeterminate": stats.get("indeterminate", 0)}

    corr_ok, detail = model_ok, "" if model_ok else "model does not build"
    if model_ok:
        try:
            ev = common.CoqEval("C08", HEADER)
            pairs = [(c, r) for c, r in zip(cases, runs) if not (r["exc"] or "").startswith("OracleError")]
            for c, r in pairs:
                ev.add(control_expr(c, r))
            outs = ev.run()
            for (c, r), o in zip(pairs, outs):
                m = parse(o)            # Coq prints ((a, b), c) as (a, b, c)
                m = ((m[0], m[1]), m[2])
                i = impl_outcome(r)
                ctx.count_case({k: c[k] for k in ("kind", "spectrum", "dim", "hnorm", "start", "residual_tol",
                                                  "norm_tol", "max_dim", "max_restarts", "seed")} |
                               {"outcome": str(i[0]), "op_calls": r["n_op"]}, r["n_op"] >= 2)
                consistent = r["exc"] is not None or r["n_op"] == r["iters"]
                bound = r["exc"] is not None or r["n_op"] <= (c["max_restarts"] + 1) * c["max_dim"]
                if (m != i or not consistent or not bound) and corr_ok:
                    corr_ok = False
                    detail = f"case={c} impl={i} model={m} op_calls={r['n_op']}"
                    ctx.extra["first_disagreement"] = {"case": c, "impl": str(i), "model": str(m)}
        except (common.CoqEvalError, ValueError) as ex:
            corr_ok, detail = False, str(ex)
    ctx.obligation("correspondence:Model.KrylovGS.GControl==krylov_energy_minimization(_impl) (outcome tuple incl. "
                   "restart count, total iterations and index of the returned pair, exact; oracle values logged)",
                   corr_ok, detail, kind="correspondence")

    lan_ok, ldetail, n_l, n_ind = model_ok, "" if model_ok else "model does not build", 0, 0
    if model_ok:
        try:
            sel = [(c, r) for c, r in zip(cases, runs)
                   if c["dim"] <= 6 and c["max_dim"] <= 8 and r["cycles"] and r["cycles"][0]["betas"]
                   and math.isfinite(c["hnorm"]) and c["vscale"] > 1e-10][: ctx.n(50, 300)]
            ev = common.CoqEval("C08lan", HEADER)
            for c, r in sel:
                ev.add(lanczos_expr(c, r))
            outs = ev.run(shard=60)
            for (c, r), o in zip(sel, outs):
                ok, d, ind = lanczos_compare(c, r, parse(o))
                n_l += 1
                n_ind += ind
                if not ok and lan_ok:
                    lan_ok, ldetail = False, f"case={c} {d}"
            ctx.extra["lanczos_model_cases"] = {"compared": n_l, "indeterminate": n_ind, "tol": 1e-9}
        except (common.CoqEvalError, ValueError) as ex:
            lan_ok, ldetail = False, str(ex)
    ctx.obligation("correspondence:Model.KrylovGS.Lanczos(GF instance)==_next_lanczos_iteration "
                   "(alphas, betas of the first cycle within 1e-9 relative, dim<=6)", lan_ok, ldetail,
                   kind="correspondence")

    ctx.rule = ("Hermitian operators Q diag(lambda) Q^dagger, dimension 1..128, uniform/clustered/degenerate/gapped "
                "spectra, |H| in 1e-2..1e2, random/basis/eigen-combination/near-excited-eigenvector start vectors, "
                "residual tolerances 1e-10..1e-3, norm tolerances 1e-12..1e-6, max_krylov_dim 1..100, max_restarts "
                "0..100, plus malformed inputs (zero/tiny vectors, max_dim 0, NaN operator, zero/negative tolerances); "
                "non-trivial = at least 2 operator applications; distinct by input hash")
    ctx.trusted_base += [
        "hand-written model Model/KrylovGS.v (validated by the two correspondences on every run)",
        "Coq PrimFloat = IEEE binary64 (bit-exact comparisons of the control decisions)",
        "torch.linalg.eigh, op, norm, vdot are oracles of the control model (values logged from the real run)",
        "numpy.linalg.eigvalsh as reference of the falsifier"]
    ctx.assumptions += [
        "NOT PROVED, validated by the falsifier only: energy >= lambda_min (Rayleigh-Ritz), energy = Rayleigh quotient "
        "and estimate = true residual in floating point (they need orthonormal Lanczos vectors; loss of orthogonality "
        "is outside the theorems)",
        "the which-pair theorems are in exact real arithmetic with all residual estimates finite (< inf)",
        "max_restarts >= 0; the ext theorem ritz_residual_identity of DESIGN.md is not delivered"]


def replay(ctx, path):
    rp = json.loads(open(path).read())
    c = rp["case"]
    r = real_run(c)
    stats = {}
    print("replay:", {k: r.get(k) for k in ("exc", "converged", "happy", "iters", "restart", "best", "energy", "pub_exc")})
    print("verdict:", property_check(ctx, c, r, stats), stats)


META = {
    "category": "proof",
    "technique": ("Coq proof over a hand-written Gallina model (restart/iteration control over oracle streams; Lanczos "
                  "step over an abstract module) tied by exact/tol correspondence; variational bound and floating-point "
                  "residual validated by a falsifier against numpy.linalg.eigvalsh"),
    "text": ("Proved for all oracle streams, Krylov dimensions and restart counts: at most (max_restarts+1)*max_krylov_dim "
             "operator applications; converged <-> the last cycle had beta_j < norm_tol or resid_j < residual_tol at some "
             "j < max_dim, no earlier cycle had; happy_breakdown -> converged; the wrapper raises iff not converged; the "
             "returned pair is the first minimiser of the residual estimate of the last cycle and, when converged "
             "without breakdown, the last iteration with estimate < residual_tol (exact reals). Over an abstract module: "
             "the three-term Lanczos relation by construction, unit norm of the returned vector. NOT proved, only "
             "validated: theta >= lambda_min, theta = <x,Hx> and estimate = true residual (need orthonormality)."),
    "note": ("Trusted: Coq kernel+VM, hand-written model (checked by correspondence on every run), numpy eigvalsh, "
             "binary64 = PrimFloat. Rounding allowance of the falsifier 1e-9*max(1,|H|)."),
}
