"""C12 — state-vector and density-matrix objects are faithful to their definitions (DESIGN.md C12).

Proof: coq/Properties/C12.v (all N, every commutative ring with involution).  Tie: the Gallina models (Model/SvOps.v too)
coq/Model/SvState.v executed at the dyadic Gaussian rationals and compared EXACTLY with the real torch classes on
Gaussian-integer data.  Falsifier: the real classes against independent numpy references (np.kron, dense algebra),
N up to 8, and dense == sparse on the real code.
"""
import json
import math

from vlib import common
from props.c06 import dy, dyl, cplx, from_dy, _gi, close, TOL

HEADER = """From Coq Require Import ZArith List Bool.
Import ListNotations.
From EV Require Import Model.SvBase Model.SvState Model.SvOps.
Open Scope Z_scope."""

BASIS = [("g", 0), ("r", 1)]


# ------------------------------------------------------------------------------------------------
def gen_bits_case(rng, N):
    return {"kind": "bits", "N": N}


def gen_state_case(rng, N):
    D = 2 ** N
    n_amp = rng.choice([1, 2, min(D, 3), rng.randint(1, D)])
    keys = rng.sample(range(D), n_amp)
    amps = [["".join("r" if (k >> (N - 1 - q)) & 1 else "g" for q in range(N)), _gi(rng, 5)] for k in keys]
    other = [_gi(rng, 4) for _ in range(D)]
    return {"kind": "state", "N": N, "amps": amps, "other": other, "scalar": _gi(rng, 3)}


COEFFS = [[1, 0], [1, 0], [1, 0], [-1, 0], [2, 0], [0, 1], [0, -1], [0.5, 0], [-0.5, 0], [3, 0], [1, 1]]
NAMED = {  # structured single-qubit operators; key order matters (dict order = accumulation order in the code)
    "X": [["gr", [1, 0]], ["rg", [1, 0]]],
    "Xr": [["rg", [1, 0]], ["gr", [1, 0]]],
    "Y": [["gr", [0, 1]], ["rg", [0, -1]]],
    "Z": [["rr", [1, 0]], ["gg", [-1, 0]]],
    "Zg": [["gg", [1, 0]], ["rr", [-1, 0]]],
    "I": [["gg", [1, 0]], ["rr", [1, 0]]],
    "n": [["rr", [1, 0]]],
    "pg": [["gg", [1, 0]]],
    "sp": [["rg", [1, 0]]],
    "sm": [["gr", [1, 0]]],
    "H2": [["gg", [1, 0]], ["gr", [1, 0]], ["rg", [1, 0]], ["rr", [-1, 0]]],
}


def gen_qudit_op(rng, structured=None):
    """A QuditOp as an ordered list [key, coeff]: named operators (X, Y, Z, n, projectors, ...), possibly with
    coefficients redrawn from a small set rich in exactly 1, or fully random Gaussian-integer ones."""
    structured = rng.random() < 0.7 if structured is None else structured
    if structured:
        q = [[k, list(v)] for k, v in NAMED[rng.choice(sorted(NAMED))]]
        how = rng.random()
        if how < 0.3:      # keep the first coefficient exactly 1, redraw the others
            q = [q[0]] + [[k, list(rng.choice(COEFFS))] for k, _ in q[1:]]
        elif how < 0.5:    # redraw all from the small set
            q = [[k, list(rng.choice(COEFFS))] for k, _ in q]
        return q
    n = rng.choice([1, 1, 2, 3, 4])
    keys = rng.sample(["gg", "gr", "rg", "rr"], n)
    return [[k, (list(rng.choice(COEFFS)) if rng.random() < 0.5 else _gi(rng, 3))] for k in keys]


def gen_op_case(rng, N, repeated=False, shape=None):
    """operations = sum of terms; every case has a small palette of QuditOps that is REUSED across terms and
    tensor factors (the same dict contents, hence the same basis keys, appear several times in one call)."""
    shape = shape or rng.choice(["palette", "palette", "sum_sites", "product", "random"])
    palette = [gen_qudit_op(rng) for _ in range(rng.randint(1, 3))]
    if shape == "random":
        pick = lambda: gen_qudit_op(rng, structured=False)
    else:
        pick = lambda: [[k, list(v)] for k, v in rng.choice(palette)]
    coef = lambda: list(rng.choice(COEFFS)) if rng.random() < 0.7 else _gi(rng, 3)
    ops = []
    if shape == "sum_sites":       # c * sum_i A_i  (+ optionally a second operator on some sites)
        A = pick()
        for i in range(N):
            ops.append([coef(), [[[list(x) for x in A], [i]]]])
        if rng.random() < 0.6:
            B = pick()
            for i in rng.sample(range(N), rng.randint(1, N)):
                ops.append([coef(), [[[list(x) for x in B], [i]]]])
    elif shape == "product":       # A_0 (x) B_1 (x) ... plus a reuse of the same factors in a second term
        sites = list(range(N))
        rng.shuffle(sites)
        for _ in range(rng.randint(1, 3)):
            k = rng.randint(1, min(N, 4))
            ops.append([coef(), [[pick(), [t]] for t in rng.sample(sites, k)]])
    else:
        for _ in range(rng.randint(1, 4)):
            free = list(range(N))
            rng.shuffle(free)
            tensor = []
            for _ in range(rng.randint(0, min(N, 3))):
                if not free:
                    break
                nt = rng.randint(1, min(2, len(free)))
                targets = [free.pop() for _ in range(nt)]
                if repeated and tensor and rng.random() < 0.5:
                    targets.append(rng.choice(tensor[-1][1]))  # overwrite an earlier target (last assignment wins)
                tensor.append([pick(), targets])
            ops.append([coef(), tensor])
    return {"kind": "op", "N": N, "ops": ops, "repeated": repeated, "shape": shape,
            "vec": [_gi(rng, 3) for _ in range(2 ** N)], "scalar": _gi(rng, 3)}


def gen_coo_case(rng):
    def coo(r, c):
        cells = [(i, j) for i in range(r) for j in range(c)]
        chosen = sorted(rng.sample(cells, rng.randint(0, len(cells))))
        return {"shape": [r, c], "idx": [list(x) for x in chosen], "val": [_gi(rng, 4) for _ in chosen]}
    ra, ca, rb, cb = (rng.randint(1, 3) for _ in range(4))
    return {"kind": "coo", "a": coo(ra, ca), "b": coo(rb, cb), "a2": coo(ra, ca)}


def gen_coodup_case(rng, N):
    """Square 2^N x 2^N COO operators given as UNCOALESCED entry lists (duplicate (row, col) pairs, arbitrary order,
    explicit zeros), a state, a scalar: SparseOperator methods must sum the duplicates."""
    D = 2 ** N

    def coo():
        cells = [(rng.randrange(D), rng.randrange(D)) for _ in range(rng.randint(0, 2 * D))]
        cells += [rng.choice(cells) for _ in range(rng.randint(0, 4)) if cells]      # duplicates
        rng.shuffle(cells)
        return {"shape": [D, D], "idx": [list(x) for x in cells],
                "val": [([0, 0] if rng.random() < 0.1 else _gi(rng, 4)) for _ in cells]}
    return {"kind": "coodup", "N": N, "a": coo(), "b": coo(), "vec": [_gi(rng, 3) for _ in range(D)],
            "scalar": _gi(rng, 3)}


# ------------------------------------------------------------------------------------------------
# real code
def _ops_py(ops):
    return [(cplx(c), [({k: cplx(v) for k, v in q}, list(t)) for q, t in tensor]) for c, tensor in ops]


def impl_state(c):
    import torch
    from emu_sv.state_vector import StateVector, inner
    from emu_sv.density_matrix_state import DensityMatrix
    amps = {s: cplx(a) for s, a in c["amps"]}
    saved = StateVector._normalize
    StateVector._normalize = lambda self: None  # exact comparison of the amplitude placement
    try:
        raw, _ = StateVector._from_state_amplitudes(eigenstates=("r", "g"), n_qudits=c["N"], amplitudes=amps)
    finally:
        StateVector._normalize = saved
    normed, _ = StateVector._from_state_amplitudes(eigenstates=("r", "g"), n_qudits=c["N"], amplitudes=amps)
    other = StateVector(torch.tensor([cplx(p) for p in c["other"]], dtype=torch.complex128), gpu=False)
    s = cplx(c["scalar"])
    rho = DensityMatrix.from_state_vector(raw)
    sig = DensityMatrix.from_state_vector(other)
    dmn, _ = DensityMatrix._from_state_amplitudes(eigenstates=("r", "g"), n_qudits=c["N"], amplitudes=amps)
    tl = lambda t: [complex(x) for x in t.reshape(-1).tolist()]
    return {"raw": tl(raw.data), "normed": tl(normed.data), "inner": complex(inner(raw, other)),
            "inner_m": complex(raw.inner(other)), "add": tl((raw + other).data), "rmul": tl((s * raw).data),
            "overlap": float(raw.overlap(other)), "norm": float(raw.norm()), "rho": tl(rho.data),
            "dm_overlap": complex(rho.overlap(sig)), "dmn": tl(dmn.data), "n_qudits": (raw.n_qudits, rho.n_qudits)}


def impl_op(c):
    import torch
    from emu_sv.dense_operator import DenseOperator
    from emu_sv.sparse_operator import SparseOperator
    from emu_sv.state_vector import StateVector
    ops = _ops_py(c["ops"])
    d, _ = DenseOperator._from_operator_repr(eigenstates=("r", "g"), n_qudits=c["N"], operations=ops)
    if SPARSE_BROKEN[0]:  # already reported on the COO cases; building the operator could crash the interpreter
        sp = None
    else:
        sp, _ = SparseOperator._from_operator_repr(eigenstates=("r", "g"), n_qudits=c["N"], operations=ops)
    v = StateVector(torch.tensor([cplx(p) for p in c["vec"]], dtype=torch.complex128), gpu=False)
    s = cplx(c["scalar"])
    tl = lambda t: [complex(x) for x in t.reshape(-1).tolist()]
    out = {"dense": tl(d.data), "apply": tl(d.apply_to(v).data), "expect": complex(d.expect(v)),
           "matmul": tl((d @ d).data), "add": tl((d + d).data), "rmul": tl((s * d).data)}
    if sp is None:
        out.update({"sparse": None, "sp_apply": None, "sp_expect": None, "sp_add": None, "sp_rmul": None})
    else:
        out.update({"sparse": tl(sp.data.to_dense()), "sp_apply": tl(sp.apply_to(v).data),
                    "sp_expect": complex(sp.expect(v)), "sp_add": tl((sp + sp).data.to_dense()),
                    "sp_rmul": tl((s * sp).data.to_dense())})
    # the same and a related representation again in the same process (shared tensors / caches would show here)
    d_again, _ = DenseOperator._from_operator_repr(eigenstates=("r", "g"), n_qudits=c["N"], operations=ops)
    d_rev, _ = DenseOperator._from_operator_repr(eigenstates=("r", "g"), n_qudits=c["N"], operations=ops[::-1])
    out["dense_again"] = tl(d_again.data)
    out["dense_rev"] = tl(d_rev.data)
    if sp is not None:
        sp_again, _ = SparseOperator._from_operator_repr(eigenstates=("r", "g"), n_qudits=c["N"],
                                                         operations=ops[::-1])
        out["sparse_rev"] = tl(sp_again.data.to_dense())
    if not c["repeated"]:
        d2 = DenseOperator.from_operator_repr(eigenstates=("r", "g"), n_qudits=c["N"], operations=ops)
        d3 = DenseOperator.from_operator_repr(eigenstates=("r", "g"), n_qudits=c["N"], operations=ops)
        s2 = SparseOperator.from_operator_repr(eigenstates=("r", "g"), n_qudits=c["N"], operations=ops) \
            if sp is not None else None
        out["public_same"] = bool(torch.equal(d2.data, d.data)) and bool(torch.equal(d3.data, d.data)) and \
            (s2 is None or bool(torch.equal(s2.data.to_dense(), sp.data.to_dense())))
    return out


def _coo_t(x):
    import torch
    idx = torch.tensor(x["idx"], dtype=torch.int64).reshape(-1, 2).T
    return torch.sparse_coo_tensor(idx, torch.tensor([cplx(v) for v in x["val"]], dtype=torch.complex128),
                                   tuple(x["shape"])).coalesce()


def _coo_raw(x):
    import torch
    idx = torch.tensor(x["idx"], dtype=torch.int64).reshape(-1, 2).T
    return torch.sparse_coo_tensor(idx, torch.tensor([cplx(v) for v in x["val"]], dtype=torch.complex128),
                                   tuple(x["shape"]))           # NOT coalesced


def impl_coodup(c):
    import torch
    from emu_sv.sparse_operator import SparseOperator, sparse_kron
    from emu_sv.state_vector import StateVector
    ta, tb = _coo_raw(c["a"]), _coo_raw(c["b"])
    A, B = SparseOperator(ta.to_sparse_csr(), gpu=False), SparseOperator(tb.to_sparse_csr(), gpu=False)
    v = StateVector(torch.tensor([cplx(p) for p in c["vec"]], dtype=torch.complex128), gpu=False)
    s = cplx(c["scalar"])
    tl = lambda t: [complex(x) for x in t.reshape(-1).tolist()]
    return {"dense": tl(A.data.to_dense()), "apply": tl(A.apply_to(v).data), "expect": complex(A.expect(v)),
            "add": tl((A + B).data.to_dense()), "rmul": tl((s * A).data.to_dense()),
            "kron": tl(sparse_kron(ta, tb).to_dense()) if c["N"] <= 2 else None}


SPARSE_BROKEN = [False]  # set when sparse_kron/sparse_add produce malformed tensors (to_dense would corrupt memory)


def impl_coo(c):
    from emu_sv.sparse_operator import sparse_kron, sparse_add
    a, b, a2 = _coo_t(c["a"]), _coo_t(c["b"]), _coo_t(c["a2"])

    def tl(t, shape):
        idx = t._indices()
        if tuple(t.shape) != shape or (idx.numel() and (int(idx[0].max()) >= shape[0] or int(idx[1].max()) >= shape[1]
                                                        or int(idx.min()) < 0)):
            SPARSE_BROKEN[0] = True
            return None
        return [complex(x) for x in t.to_dense().reshape(-1).tolist()]

    (ra, ca), (rb, cb) = c["a"]["shape"], c["b"]["shape"]
    return {"kron": tl(sparse_kron(a, b), (ra * rb, ca * cb)), "add": tl(sparse_add(a, a2), (ra, ca))}


# ------------------------------------------------------------------------------------------------
# independent references (numpy)
def ref_op(c):
    import numpy as np
    N = c["N"]
    E = {"gg": (0, 0), "gr": (0, 1), "rg": (1, 0), "rr": (1, 1)}
    acc = np.zeros((2 ** N, 2 ** N), dtype=complex)
    for coeff, tensor in c["ops"]:
        gates = [np.eye(2, dtype=complex) for _ in range(N)]
        for q, targets in tensor:
            m = np.zeros((2, 2), dtype=complex)
            for k, v in q:
                m[E[k]] += cplx(v)
            for t in targets:
                gates[t] = m
        full = np.ones((1, 1), dtype=complex)
        for g in gates:
            full = np.kron(full, g)
        acc = acc + cplx(coeff) * full
    return acc


# ------------------------------------------------------------------------------------------------
# model expressions
def _nat(n):
    return f"{n}%nat"


def _natl(xs):
    return "[" + "; ".join(_nat(x) for x in xs) + "]"


def _bits(s):
    return _natl([1 if ch == "r" else 0 for ch in s])


def _ops_lit(ops):
    E = {"g": 0, "r": 1}

    def q(qo):
        return "[" + "; ".join(f"({_nat(E[k[0]])}, {_nat(E[k[1]])}, {dy(cplx(v))})" for k, v in qo) + "]"

    def tensor(t):
        return "[" + "; ".join(f"({q(qo)}, {_natl(tg)})" for qo, tg in t) + "]"

    return "[" + "; ".join(f"({dy(cplx(c))}, {tensor(t)})" for c, t in ops) + "]"


def _coo_lit(x):
    es = "; ".join(f"({_nat(i)}, {_nat(j)}, {dy(cplx(v))})" for (i, j), v in zip(x["idx"], x["val"]))
    return f"({_nat(x['shape'][0])}, {_nat(x['shape'][1])}, [{es}])"


def diff(expr, expected):
    if expected is None:  # the real code produced a malformed result
        return "(-4)"
    return f"dy_first_diff 0 ({expr}) {dyl(expected)}"


def scal(expr, expected):
    return f"dy_eqb ({expr}) {dy(expected)}"


def state_exprs(c, r):
    amps = "[" + "; ".join(f"({_bits(s)}, {dy(cplx(a))})" for s, a in c["amps"]) + "]"
    raw = f"from_amplitudes DyK {_nat(c['N'])} {amps}"
    other = dyl([cplx(p) for p in c["other"]])
    return [("from_amplitudes", diff(raw, r["raw"]), -1),
            ("inner", scal(f"sv_inner DyK ({raw}) {other}", r["inner"]), True),
            ("add", diff(f"sv_add DyK ({raw}) {other}", r["add"]), -1),
            ("rmul", diff(f"sv_rmul DyK {dy(cplx(c['scalar']))} ({raw})", r["rmul"]), -1),
            ("from_state_vector", diff(f"from_state_vector DyK ({raw})", r["rho"]), -1),
            ("dm_overlap", scal(f"dm_overlap DyK (from_state_vector DyK ({raw})) (from_state_vector DyK {other})",
                                r["dm_overlap"]), True)]


def op_exprs(c, r, sparse_too):
    d = f"dense_from_repr DyK {_nat(c['N'])} {_ops_lit(c['ops'])}"
    v = dyl([cplx(p) for p in c["vec"]])
    out = [("dense_from_repr", diff(f"snd ({d})", r["dense"]), -1),
           ("apply_to", diff(f"mapply DyK ({d}) {v}", r["apply"]), -1),
           ("expect", scal(f"mexpect DyK ({d}) {v}", r["expect"]), True),
           ("add", diff(f"snd (madd DyK ({d}) ({d}))", r["add"]), -1),
           ("rmul", diff(f"snd (mscale DyK {dy(cplx(c['scalar']))} ({d}))", r["rmul"]), -1)]
    if c["N"] <= 3:
        out.append(("matmul", diff(f"snd (matmul DyK ({d}) ({d}))", r["matmul"]), -1))
    # the MEANING of the representation (Model/SvOps.v repr_entry) against the real dense (and sparse) operator
    out.append(("ops.repr_entry==dense", diff(f"snd (repr_mat DyK {_nat(c['N'])} {_ops_lit(c['ops'])})", r["dense"]), -1))
    if sparse_too:
        sp = f"sparse_from_repr DyK {_nat(c['N'])} {_ops_lit(c['ops'])}"
        out.append(("sparse_from_repr", diff(f"snd (coo_to_mat DyK ({sp}))", r["sparse"]), -1))
        if r["sparse"] is not None:   # SparseOperator methods through the COO model, one vm_compute (S, v bound once)
            parts = [diff("coo_apply DyK S v", r["sp_apply"]), zflag("coo_expect DyK S v", r["sp_expect"]),
                     diff("snd (coo_to_mat DyK (sparse_add DyK S S))", r["sp_add"]),
                     diff(f"snd (coo_to_mat DyK (coo_scale DyK {dy(cplx(c['scalar']))} S))", r["sp_rmul"])]
            out.append(("ops.sparse.[apply_to,expect,add,rmul]",
                        f"let S := {sp} in let v := {v} in [" + "; ".join(parts) + "]", [-1] * len(parts)))
    return out


def zflag(expr, expected):
    """scalar comparison as a Z (-1 = equal), to sit in one list with the dy_first_diff results"""
    return f"(if dy_eqb ({expr}) {dy(expected)} then (-1) else 0)"


def coodup_exprs(c, r):
    """one vm_compute per case (the literals are bound once): list of first-difference indices, all -1 when equal"""
    v = dyl([cplx(p) for p in c["vec"]])
    parts = [diff("snd (coo_to_mat DyK A)", r["dense"]), diff("coo_apply DyK A v", r["apply"]),
             zflag("coo_expect DyK A v", r["expect"]),
             diff("snd (coo_to_mat DyK (sparse_add DyK A B))", r["add"]),
             diff(f"snd (coo_to_mat DyK (coo_scale DyK {dy(cplx(c['scalar']))} A))", r["rmul"])]
    if r["kron"] is not None:
        parts.append(diff("snd (coo_to_mat DyK (sparse_kron DyK A B))", r["kron"]))
    e = f"let A := {_coo_lit(c['a'])} in let B := {_coo_lit(c['b'])} in let v := {v} in [" + "; ".join(parts) + "]"
    return [("coodup.[to_dense,apply_to,expect,add,rmul,sparse_kron]", e, [-1] * len(parts))]


def coo_exprs(c, r):
    a, b, a2 = _coo_lit(c["a"]), _coo_lit(c["b"]), _coo_lit(c["a2"])
    ra, ca = c["a"]["shape"]
    rb, cb = c["b"]["shape"]

    def dense_rect(S, rows, cols):  # row-major dense of a rectangular COO
        return (f"flat_map (fun i => map (fun j => coo_dense DyK ({S}) i j) (seq 0 {_nat(cols)})) (seq 0 {_nat(rows)})")

    return [("sparse_kron", diff(dense_rect(f"sparse_kron DyK {a} {b}", ra * rb, ca * cb), r["kron"]), -1),
            ("sparse_add", diff(dense_rect(f"sparse_add DyK {a} {a2}", ra, ca), r["add"]), -1)]


# ------------------------------------------------------------------------------------------------
def pclose(a, b):
    if len(a) != len(b):
        return False
    sc = max([1.0] + [abs(x) for x in b])
    return all(abs(x - y) <= PREC_TOL * sc for x, y in zip(a, b))


def oracle(ctx, c, r):
    """Property-level checks of the real code against independent references."""
    import numpy as np

    def bad(what, key):
        ctx.violation(what, {"case": c, "finding_key": key})
        return False

    if c["kind"] == "fstate":
        return oracle_fstate(ctx, c, r)
    if c["kind"] == "gmat":
        return oracle_gmat(ctx, c, r)
    if c["kind"] == "state":
        N, D = c["N"], 2 ** c["N"]
        vec = [0j] * D
        for s, a in c["amps"]:
            vec[int(s.replace("r", "1").replace("g", "0"), 2)] = cplx(a)
        oth = [cplx(p) for p in c["other"]]
        nrm = math.sqrt(sum(abs(x) ** 2 for x in vec))
        ok = r["raw"] == vec or bad("amplitudes placed at wrong indices", "state-placement")
        ok &= pclose(r["normed"], [x / nrm for x in vec]) or bad("normalised state wrong", "amplitudes-lose-precision")
        inner = sum(x.conjugate() * y for x, y in zip(vec, oth))
        ok &= (r["inner"] == inner and r["inner_m"] == inner) or bad("inner product wrong", "state-inner")
        ok &= r["add"] == [x + y for x, y in zip(vec, oth)] or bad("sum wrong", "state-add")
        ok &= r["rmul"] == [cplx(c["scalar"]) * x for x in vec] or bad("scaling wrong", "state-rmul")
        ok &= abs(r["overlap"] - abs(inner) ** 2) <= PREC_TOL * max(1.0, abs(inner) ** 2) or bad("overlap wrong", "state-overlap")
        ok &= abs(r["norm"] - nrm) <= PREC_TOL * max(1.0, nrm) or bad("norm wrong", "state-norm")
        rho = [x * y.conjugate() for x in vec for y in vec]
        ok &= r["rho"] == rho or bad("from_state_vector is not psi psi^dagger", "dm-outer")
        sig = [x * y.conjugate() for x in oth for y in oth]
        ok &= r["dm_overlap"] == sum(x.conjugate() * y for x, y in zip(rho, sig)) or bad("dm overlap wrong", "dm-overlap")
        ok &= pclose(r["dmn"], [x / nrm ** 2 for x in rho]) or bad("DensityMatrix from amplitudes wrong", "amplitudes-lose-precision")
        ok &= r["n_qudits"] == (N, N) or bad("n_qudits wrong", "n-qudits")
        return ok
    if c["kind"] == "op":
        M = ref_op(c)
        v = np.array([cplx(p) for p in c["vec"]], dtype=complex)
        s = cplx(c["scalar"])
        fl = lambda A: [complex(x) for x in np.asarray(A).reshape(-1)]
        ok = r["dense"] == fl(M) or bad("DenseOperator differs from the Kronecker construction", "dense-repr")
        ok &= r["sparse"] == fl(M) or bad("SparseOperator differs from the Kronecker construction / dense", "sparse-repr")
        ok &= (r["dense_again"] == fl(M) and r["dense_rev"] == fl(M)) or \
            bad("DenseOperator built a second time / with the terms reversed differs from the Kronecker construction",
                "dense-repr-again")
        ok &= r.get("sparse_rev", fl(M)) == fl(M) or bad("SparseOperator with the terms reversed differs", "sparse-repr")
        ok &= (r["apply"] == fl(M @ v) and r["sp_apply"] == fl(M @ v)) or bad("apply_to wrong", "op-apply")
        e = complex(np.vdot(v, M @ v))
        ok &= (r["expect"] == e and r["sp_expect"] == e) or bad("expect wrong", "op-expect")
        ok &= r["matmul"] == fl(M @ M) or bad("matmul wrong", "op-matmul")
        ok &= (r["add"] == fl(M + M) and r["sp_add"] == fl(M + M)) or bad("add wrong", "op-add")
        ok &= (r["rmul"] == fl(s * M) and r["sp_rmul"] == fl(s * M)) or bad("rmul wrong", "op-rmul")
        ok &= r.get("public_same", True) or bad("public from_operator_repr differs", "op-public")
        return ok
    if c["kind"] == "coodup":
        def densed(x):
            A = np.zeros(tuple(x["shape"]), dtype=complex)
            for (i, j), val in zip(x["idx"], x["val"]):
                A[i, j] += cplx(val)            # duplicates add up
            return A
        fl = lambda A: [complex(x) for x in np.asarray(A).reshape(-1)]
        A, B = densed(c["a"]), densed(c["b"])
        v = np.array([cplx(p) for p in c["vec"]], dtype=complex)
        s = cplx(c["scalar"])
        ok = r["dense"] == fl(A) or bad("SparseOperator from uncoalesced COO does not sum duplicates", "sparse-dup-dense")
        ok &= r["apply"] == fl(A @ v) or bad("SparseOperator.apply_to wrong on duplicate entries", "sparse-dup-apply")
        ok &= r["expect"] == complex(np.vdot(v, A @ v)) or bad("SparseOperator.expect wrong on duplicate entries", "sparse-dup-expect")
        ok &= r["add"] == fl(A + B) or bad("SparseOperator.__add__ wrong on duplicate entries", "sparse-dup-add")
        ok &= r["rmul"] == fl(s * A) or bad("SparseOperator.__rmul__ wrong on duplicate entries", "sparse-dup-rmul")
        ok &= r["kron"] is None or r["kron"] == fl(np.kron(A, B)) or \
            bad("sparse_kron wrong on uncoalesced inputs", "sparse-kron")
        return ok
    if c["kind"] == "coo":
        def dense(x):
            A = np.zeros(tuple(x["shape"]), dtype=complex)
            for (i, j), val in zip(x["idx"], x["val"]):
                A[i, j] = cplx(val)
            return A
        fl = lambda A: [complex(x) for x in np.asarray(A).reshape(-1)]
        ok = r["kron"] == fl(np.kron(dense(c["a"]), dense(c["b"]))) or bad("sparse_kron != dense kron", "sparse-kron")
        ok &= r["add"] == fl(dense(c["a"]) + dense(c["a2"])) or bad("sparse_add != dense add", "sparse-add")
        return ok
    return True


# ------------------------------------------------------------------------------------------------
# precision / dtype oracle on GENERIC (non-dyadic) float inputs: every constructor and operation must return
# complex128 data agreeing with a float64 numpy reference to PREC_TOL (relative to the data scale).
# float64 rounding of these computations is <= ~1e-14 for N <= 6; a pass through single precision is >= 1e-9.
PREC_TOL = 1e-12
ATYPES = ["float", "complex", "numpy", "tensor", "mixed"]


def _fl(rng):
    return rng.choice([0.1, 0.2, 0.3, 0.4, 0.6, 0.8, 0.7, 1 / 3, 1 / math.sqrt(2), 0.9]) if rng.random() < 0.5 \
        else rng.uniform(-1, 1) * 10 ** rng.uniform(-2, 1)


def gen_fstate_case(rng, N, atype=None):
    atype = atype or rng.choice(ATYPES)
    D = 2 ** N
    keys = rng.sample(range(D), rng.choice([min(D, 2), min(D, 4), rng.randint(1, min(D, 12))]))
    real_only = atype == "float"
    amps = [["".join("r" if (k >> (N - 1 - q)) & 1 else "g" for q in range(N)),
             [_fl(rng), 0.0 if (real_only or rng.random() < 0.3) else _fl(rng)]] for k in keys]
    if all(a == [0.0, 0.0] for _, a in amps):
        amps[0][1] = [0.6, 0.0]
    ops = []
    for _ in range(rng.randint(1, 3)):
        sites = rng.sample(range(N), rng.randint(1, min(N, 3)))
        ops.append([[_fl(rng), _fl(rng)], [[[[k, [_fl(rng), _fl(rng)]] for k in
                                             rng.sample(["gg", "gr", "rg", "rr"], rng.randint(1, 4))], [t]]
                                           for t in sites]])
    return {"kind": "fstate", "N": N, "atype": atype, "amps": amps, "ops": ops,
            "other": [[_fl(rng), _fl(rng)] for _ in range(D)], "scalar": [_fl(rng), _fl(rng)]}


def _conv(a, atype, i):
    import numpy as np
    import torch
    z = complex(a[0], a[1])
    t = atype if atype != "mixed" else ATYPES[i % 4]
    if t == "float":
        return float(a[0]) if a[1] == 0.0 else z
    if t == "complex":
        return z
    if t == "numpy":
        return np.float64(a[0]) if a[1] == 0.0 else np.complex128(z)
    return torch.tensor(a[0], dtype=torch.float64) if a[1] == 0.0 else torch.tensor(z, dtype=torch.complex128)


def impl_fstate(c):
    import torch
    from emu_sv.state_vector import StateVector, inner
    from emu_sv.density_matrix_state import DensityMatrix
    from emu_sv.dense_operator import DenseOperator
    from emu_sv.sparse_operator import SparseOperator
    N = c["N"]
    amps = {s: _conv(a, c["atype"], i) for i, (s, a) in enumerate(c["amps"])}
    tl = lambda t: [complex(x) for x in t.reshape(-1).tolist()]
    out, dt = {}, {}

    def rec(name, t, dense=False):
        dt[name] = str(t.dtype)
        out[name] = tl(t.to_dense() if dense else t)

    sv = StateVector.from_state_amplitudes(eigenstates=("r", "g"), amplitudes=amps)
    sv_p, _ = StateVector._from_state_amplitudes(eigenstates=("r", "g"), n_qudits=N, amplitudes=amps)
    dm = DensityMatrix.from_state_amplitudes(eigenstates=("r", "g"), amplitudes=amps)
    dm_p, _ = DensityMatrix._from_state_amplitudes(eigenstates=("r", "g"), n_qudits=N, amplitudes=amps)
    other = StateVector(torch.tensor([cplx(p) for p in c["other"]], dtype=torch.complex128), gpu=False)
    s = cplx(c["scalar"])
    ops = _ops_py(c["ops"])
    d = DenseOperator.from_operator_repr(eigenstates=("r", "g"), n_qudits=N, operations=ops)
    sp = SparseOperator.from_operator_repr(eigenstates=("r", "g"), n_qudits=N, operations=ops)
    rec("sv", sv.data); rec("sv_private", sv_p.data); rec("dm", dm.data); rec("dm_private", dm_p.data)
    rec("dm_from_sv", DensityMatrix.from_state_vector(sv).data)
    rec("add", (sv + other).data); rec("rmul", (s * sv).data)
    rec("dense", d.data); rec("sparse", sp.data, True)
    rec("apply", d.apply_to(sv).data); rec("sp_apply", sp.apply_to(sv).data)
    rec("matmul", (d @ d).data); rec("op_add", (d + d).data); rec("op_rmul", (s * d).data)
    rec("sp_add", (sp + sp).data, True); rec("sp_rmul", (s * sp).data, True)
    for name, val in (("inner", inner(sv, other)), ("inner_rev", other.inner(sv)), ("overlap", sv.overlap(other)),
                      ("norm", sv.norm()), ("expect", d.expect(sv)), ("sp_expect", sp.expect(sv)),
                      ("dm_overlap", dm.overlap(DensityMatrix.from_state_vector(other)))):
        dt[name] = str(val.dtype)
        out[name] = [complex(val)]
    return {"vals": out, "dtypes": dt}


def ref_fstate(c):
    import numpy as np
    N, D = c["N"], 2 ** c["N"]
    vec = np.zeros(D, dtype=complex)
    for sname, a in c["amps"]:
        vec[int(sname.replace("r", "1").replace("g", "0"), 2)] = cplx(a)
    nrm = math.sqrt(sum(abs(x) ** 2 for x in vec))
    psi = vec / nrm
    oth = np.array([cplx(p) for p in c["other"]], dtype=complex)
    s = cplx(c["scalar"])
    M = ref_op(c)
    rho, sig = np.outer(psi, psi.conj()), np.outer(oth, oth.conj())
    ip = np.vdot(psi, oth)
    e = np.vdot(psi, M @ psi)
    return {"sv": psi, "sv_private": psi, "dm": rho, "dm_private": rho, "dm_from_sv": rho, "add": psi + oth,
            "rmul": s * psi, "dense": M, "sparse": M, "apply": M @ psi, "sp_apply": M @ psi, "matmul": M @ M,
            "op_add": M + M, "op_rmul": s * M, "sp_add": M + M, "sp_rmul": s * M, "inner": [ip],
            "inner_rev": [np.conj(ip)], "overlap": [abs(ip) ** 2], "norm": [1.0], "expect": [e], "sp_expect": [e],
            "dm_overlap": [np.vdot(rho.reshape(-1), sig.reshape(-1))]}


REAL_VALUED = {"overlap": "torch.float64", "norm": "torch.float64"}


def oracle_fstate(ctx, c, r):
    import numpy as np
    ref = ref_fstate(c)
    ok = True
    for name, want in ref.items():
        got = np.array(r["vals"][name], dtype=complex)
        want = np.asarray(want, dtype=complex).reshape(-1)
        scale = max(1.0, float(np.max(np.abs(want))) if want.size else 1.0)
        err = float(np.max(np.abs(got - want))) if got.shape == want.shape else float("inf")
        if not (err <= PREC_TOL * scale):
            ok = False
            key = "amplitudes-lose-precision" if name in ("sv", "sv_private", "dm", "dm_private") else "precision-" + name
            ctx.violation(f"{name}: deviates from the float64 reference by {err:.3e} (allowed {PREC_TOL * scale:.1e}) "
                          f"on generic float amplitudes of type {c['atype']}, N={c['N']}",
                          {"case": c, "finding_key": key, "max_abs_error": err})
        wanted_dtype = REAL_VALUED.get(name, "torch.complex128")
        if r["dtypes"][name] != wanted_dtype:
            ok = False
            ctx.violation(f"{name}: dtype {r['dtypes'][name]} instead of {wanted_dtype}",
                          {"case": c, "finding_key": "dtype-not-complex128"})
    return ok



# ------------------------------------------------------------------------------------------------
# GENERAL complex matrices / vectors (non-Hermitian, non-normalised, non-positive) through the direct constructors:
# documented definitions incl. conjugation in the first slot. exact=True: Gaussian integers (also tied to the model);
# exact=False: generic floats (precision stream).
def gen_gmat_case(rng, N, exact=True, special=None):
    D = 2 ** N
    val = (lambda: _gi(rng, 4)) if exact else (lambda: [_fl(rng), _fl(rng)])
    style = special or rng.choice(["dense", "dense", "sparse", "nilpotent", "antiherm"])
    A = [[val() for _ in range(D)] for _ in range(D)]
    B = [[val() for _ in range(D)] for _ in range(D)]
    if style == "sparse":
        A = [[x if rng.random() < 0.3 else [0, 0] for x in r] for r in A]
    if style == "nilpotent":      # strictly upper triangular, e.g. |g><r|
        A = [[A[r][c] if c > r else [0, 0] for c in range(D)] for r in range(D)]
        if not any(x != [0, 0] for r in A for x in r):
            A[0][D - 1] = [1, 0]
        B = A if rng.random() < 0.5 else B
    if style == "antiherm":       # A = i H with H Hermitian, B = H
        H = [[[A[r][c][0] + A[c][r][0], A[r][c][1] - A[c][r][1]] for c in range(D)] for r in range(D)]
        A = [[[-x[1], x[0]] for x in r] for r in H]
        B = H
    return {"kind": "gmat", "N": N, "exact": exact, "style": style, "A": A, "B": B,
            "u": [val() for _ in range(D)], "v": [val() for _ in range(D)], "scalar": val()}


def impl_gmat(c):
    import torch
    from emu_sv.state_vector import StateVector, inner
    from emu_sv.density_matrix_state import DensityMatrix
    from emu_sv.dense_operator import DenseOperator
    from emu_sv.sparse_operator import SparseOperator
    T = lambda M: torch.tensor([[cplx(x) for x in r] for r in M], dtype=torch.complex128)
    A, B = T(c["A"]), T(c["B"])
    u = StateVector(torch.tensor([cplx(p) for p in c["u"]], dtype=torch.complex128), gpu=False)
    v = StateVector(torch.tensor([cplx(p) for p in c["v"]], dtype=torch.complex128), gpu=False)
    a = cplx(c["scalar"])
    dA, dB, daA = DensityMatrix(A, gpu=False), DensityMatrix(B, gpu=False), DensityMatrix(a * A, gpu=False)
    oA, oB = DenseOperator(A, gpu=False), DenseOperator(B, gpu=False)
    sA, sB = SparseOperator(A.to_sparse_csr(), gpu=False), SparseOperator(B.to_sparse_csr(), gpu=False)
    tl = lambda t: [complex(x) for x in t.reshape(-1).tolist()]
    one = lambda z: [complex(z)]
    out = {"dm_overlap": one(dA.overlap(dB)), "dm_overlap_rev": one(dB.overlap(dA)),
           "dm_overlap_scaled": one(daA.overlap(dB)), "dm_overlap_self": one(dA.overlap(dA)),
           "inner": one(u.inner(v)), "inner_fn": one(inner(u, v)), "inner_rev": one(v.inner(u)),
           "inner_scaled": one((a * u).inner(v)), "sv_overlap": one(u.overlap(v)),
           "apply": tl(oA.apply_to(v).data), "expect": one(oA.expect(v)), "matmul": tl((oA @ oB).data),
           "op_add": tl((oA + oB).data), "op_rmul": tl((a * oA).data),
           "sp_apply": tl(sA.apply_to(v).data), "sp_expect": one(sA.expect(v)),
           "sp_add": tl((sA + sB).data.to_dense()), "sp_rmul": tl((a * sA).data.to_dense()),
           "n_qudits": [complex(dA.n_qudits)]}
    return out


def ref_gmat(c):
    import numpy as np
    A = np.array([[cplx(x) for x in r] for r in c["A"]], dtype=complex)
    B = np.array([[cplx(x) for x in r] for r in c["B"]], dtype=complex)
    u = np.array([cplx(p) for p in c["u"]], dtype=complex)
    v = np.array([cplx(p) for p in c["v"]], dtype=complex)
    a = cplx(c["scalar"])
    tr = lambda X, Y: np.trace(X.conj().T @ Y)          # Tr(X^dagger Y)
    ip = np.vdot(u, v)
    return {"dm_overlap": [tr(A, B)], "dm_overlap_rev": [np.conj(tr(A, B))], "dm_overlap_scaled": [np.conj(a) * tr(A, B)],
            "dm_overlap_self": [np.sum(A.conj() * A)], "inner": [ip], "inner_fn": [ip], "inner_rev": [np.conj(ip)],
            "inner_scaled": [np.conj(a) * ip], "sv_overlap": [abs(ip) ** 2], "apply": A @ v,
            "expect": [np.vdot(v, A @ v)], "matmul": A @ B, "op_add": A + B, "op_rmul": a * A, "sp_apply": A @ v,
            "sp_expect": [np.vdot(v, A @ v)], "sp_add": A + B, "sp_rmul": a * A, "n_qudits": [c["N"]]}


def oracle_gmat(ctx, c, r):
    import numpy as np
    ok = True
    for name, want in ref_gmat(c).items():
        got = np.array(r[name], dtype=complex)
        want = np.asarray(want, dtype=complex).reshape(-1)
        scale = max(1.0, float(np.max(np.abs(want))))
        err = float(np.max(np.abs(got - want))) if got.shape == want.shape else float("inf")
        tol = 0.0 if (c["exact"] and name != "sv_overlap") else PREC_TOL * scale
        if not (err <= tol):
            ok = False
            key = ("dm-overlap-not-sesquilinear" if name.startswith("dm_overlap") else
                   "inner-not-sesquilinear" if name.startswith("inner") else "general-matrix-" + name)
            ctx.violation(f"{name} on general (non-Hermitian) complex data deviates from its definition by {err:.3e} "
                          f"(N={c['N']}, style={c['style']}, {'exact' if c['exact'] else 'float'})",
                          {"case": c, "finding_key": key, "max_abs_error": err})
    return ok


def gmat_exprs(c, r):
    D = 2 ** c["N"]
    A = dyl([cplx(x) for row in c["A"] for x in row])
    B = dyl([cplx(x) for row in c["B"] for x in row])
    u, v = dyl([cplx(p) for p in c["u"]]), dyl([cplx(p) for p in c["v"]])
    a = dy(cplx(c["scalar"]))
    mA, mB = f"({_nat(D)}, {A})", f"({_nat(D)}, {B})"
    return [("dm_overlap", scal(f"dm_overlap DyK {A} {B}", r["dm_overlap"][0]), True),
            ("dm_overlap_scaled", scal(f"dm_overlap DyK (@vscale DyK {a} {A}) {B}", r["dm_overlap_scaled"][0]), True),
            ("dm_overlap_rev", scal(f"dm_overlap DyK {B} {A}", r["dm_overlap_rev"][0]), True),
            ("inner", scal(f"sv_inner DyK {u} {v}", r["inner"][0]), True),
            ("inner_scaled", scal(f"sv_inner DyK (sv_rmul DyK {a} {u}) {v}", r["inner_scaled"][0]), True),
            ("apply", diff(f"mapply DyK {mA} {v}", r["apply"]), -1),
            ("expect", scal(f"mexpect DyK {mA} {v}", r["expect"][0]), True),
            ("matmul", diff(f"snd (matmul DyK {mA} {mB})", r["matmul"]), -1)]



def bits_check(ctx, N):
    """index_to_bitstring on every index of an N-qubit register; returns the list of digit lists."""
    from emu_sv.utils import index_to_bitstring
    out = []
    for k in range(2 ** N):
        s = index_to_bitstring(N, k)
        if len(s) != N or int(s, 2) != k or any(int(s[q]) != (k >> (N - 1 - q)) & 1 for q in range(N)):
            ctx.violation(f"index_to_bitstring({N},{k}) = {s!r} is not the big-endian bitstring",
                          {"case": {"kind": "bits", "N": N, "k": k}, "finding_key": "bitstring"})
        out.append([int(ch) for ch in s])
    try:
        index_to_bitstring(N, 2 ** N)
        rejected = False
    except AssertionError:
        rejected = True
    return out, rejected


def corpus_cases():
    p = common.VERIF / "corpus" / "C12.json"
    return json.loads(p.read_text()) if p.exists() else []


def run_real(c):
    return {"state": impl_state, "op": impl_op, "coo": impl_coo, "fstate": impl_fstate, "gmat": impl_gmat,
            "coodup": impl_coodup}[c["kind"]](c)


def run(ctx):
    from vlib.coqparse import parse

    rc, out = common.coq_make(["Model/SvState.vo", "Model/SvOps.vo"])
    ctx.obligation("build:Model/SvState.vo Model/SvOps.vo", rc == 0, out, kind="build")
    model_ok = rc == 0
    common.standard_proof_stage(ctx, "C12", ["Properties/C12.vo"])

    rng, th = ctx.rng, ctx.thorough()
    ev = common.CoqEval("C12", HEADER)
    pending, hist = [], {}

    # ---- bitstrings: exhaustive
    bits_expected = {}
    for N in range(1, (12 if th else 9) + 1):  # N = 0: format(0, '00b') is '0' (one character); registers have N >= 1
        digits, rejected = bits_check(ctx, N)
        ctx.count_case({"kind": "bits", "N": N, "indices": 2 ** N}, N >= 2)
        hist[f"bits/N={N}"] = 2 ** N
        if model_ok:
            i = ev.add(f"(map (index_to_bits {_nat(N)}) (seq 0 (2 ^ {_nat(N)})), index_to_bits {_nat(N)} (2 ^ {_nat(N)}), "
                       f"forallb (fun k => Nat.eqb (bits_to_index (match index_to_bits {_nat(N)} k with Some s => s "
                       f"| None => [] end)) k) (seq 0 (2 ^ {_nat(N)})))")
            bits_expected[i] = (N, digits, rejected)

    cases = [dict(c, corpus=True) for c in corpus_cases()]
    for _ in range(ctx.n(25, 300)):  # first: a malformed sparse_kron result must be seen before operators are built
        cases.append(gen_coo_case(rng))
    cases.sort(key=lambda c: c["kind"] != "coo")
    for N in range(1, 9):
        for _ in range(ctx.n(3, 20) if N <= 6 else ctx.n(1, 4)):
            cases.append(gen_state_case(rng, N))
        for i in range(ctx.n(6, 30) if N <= 5 else ctx.n(2, 4)):
            cases.append(gen_op_case(rng, N, repeated=(i % 3 == 2)))
    for N in range(1, 7):   # precision / dtype oracle on generic floats (no model: float rounding is outside it)
        for i in range(ctx.n(5, 30)):
            cases.append(gen_fstate_case(rng, N, atype=ATYPES[i % len(ATYPES)]))

    for N in range(1, 5 if not th else 6):   # general (non-Hermitian) matrices: exact stream (model tie N <= 3) + floats
        for i in range(ctx.n(2, 16)):
            cases.append(gen_gmat_case(rng, N, exact=True))
            cases.append(gen_gmat_case(rng, N, exact=False))

    for N in range(1, 4):   # uncoalesced COO operators (duplicate entries) through the SparseOperator methods
        for _ in range(ctx.n(3, 30)):
            cases.append(gen_coodup_case(rng, N))

    n_model = 0
    for c in cases:
        r = run_real(c)
        ok = oracle(ctx, c, r)
        key = f"{c['kind']}/N={c.get('N', '-')}"
        hist[key] = hist.get(key, 0) + 1
        if c["kind"] == "op":
            k2 = "op-shape/" + c.get("shape", "-") + ("/first-coeff-1-multi-entry" if any(
                len(q) > 1 and q[0][1] == [1, 0] for _, t in c["ops"] for q, _ in t) else "")
            hist[k2] = hist.get(k2, 0) + 1
        nontrivial = c["kind"] == "coo" or (c["N"] >= 2 and (c["kind"] in ("state", "fstate", "gmat", "coodup") or any(t for _, t in c["ops"])))
        ctx.count_case({k: c[k] for k in c if k not in ("vec", "other", "A", "B", "u", "v")} | {"oracle_ok": ok}, nontrivial)
        if not model_ok:
            continue
        if c["kind"] == "state" and c["N"] <= (6 if th else 5):
            exprs = state_exprs(c, r) if c["N"] <= 4 else state_exprs(c, r)[:4]
        elif c["kind"] == "op" and c["N"] <= (5 if th else 4):
            exprs = op_exprs(c, r, sparse_too=c["N"] <= 3)
        elif c["kind"] == "coo":
            exprs = coo_exprs(c, r)
        elif c["kind"] == "gmat" and c["exact"] and c["N"] <= 3:
            exprs = gmat_exprs(c, r)
        elif c["kind"] == "coodup":
            exprs = coodup_exprs(c, r)
        else:
            continue
        n_model += 1
        for name, e, want in exprs:
            pending.append((c, name, ev.add(e), want))
    ctx.extra["input_distribution"] = dict(sorted(hist.items()))

    corr_ok, detail = model_ok, "" if model_ok else "model does not build"
    ops_ok, ops_detail, n_ops = model_ok, "" if model_ok else "model does not build", 0
    is_ops = lambda name: name.startswith(("ops.", "coodup."))
    if model_ok:
        try:
            outs = ev.run(shard=60 if th else 25, jobs=12)
            for i, (N, digits, rejected) in bits_expected.items():
                v = parse(outs[i])
                got = [list(x[1]) if isinstance(x, tuple) else None for x in v[0]]
                good = got == digits and ((v[1] is None) == rejected) and v[2] is True
                if not good and corr_ok:
                    corr_ok, detail = False, f"index_to_bits disagrees with index_to_bitstring at N={N}"
            for (c, name, idx, want) in pending:
                v = parse(outs[idx])
                if is_ops(name):     # Model/SvOps.v: meaning of the representation, SparseOperator methods on COO
                    n_ops += 1
                    if v != want and ops_ok:
                        ops_ok = False
                        ops_detail = f"{name}: model/impl differ ({v}); case={json.dumps(c)[:900]}"
                        ctx.extra["first_disagreement_ops"] = {"case": c, "what": name, "result": str(v)}
                elif v != want and corr_ok:
                    corr_ok = False
                    detail = f"{name}: model/impl differ ({v}); case={json.dumps(c)[:900]}"
                    ctx.extra["first_disagreement"] = {"case": c, "what": name, "result": str(v)}
        except (common.CoqEvalError, ValueError) as ex:
            corr_ok, detail = False, str(ex)
            ops_ok, ops_detail = False, str(ex)
    ctx.extra["tie"] = {"cases_with_model": n_model, "exact_comparisons": len(pending) + len(bits_expected),
                        "exact_comparisons_SvOps": n_ops}
    ctx.obligation("correspondence:Model.SvState==StateVector/DensityMatrix/DenseOperator/SparseOperator/"
                   "index_to_bitstring (exact on Gaussian integers)", corr_ok, detail, kind="correspondence")
    ctx.obligation("correspondence:Model.SvOps repr_entry==DenseOperator/SparseOperator._from_operator_repr; "
                   "coo_apply/coo_expect/sparse_add/coo_scale==SparseOperator.apply_to/expect/__add__/__rmul__ "
                   "(representations and uncoalesced COO with duplicates, exact on Gaussian integers)",
                   ops_ok and (n_ops > 0 or not model_ok), ops_detail or ("no comparison ran" if n_ops == 0 else ""),
                   kind="correspondence")
    ctx.rule = ("index_to_bitstring exhaustively for N <= 9 (12 thorough); random amplitude dictionaries, "
                "Gaussian-integer vectors, operator representations (1-4 tensor terms, QuditOps over gg/gr/rg/rr, "
                "multi-qubit targets, every third case with repeated targets through _from_operator_repr), N = 1..8; "
                "random coalesced COO pairs for sparse_kron/sparse_add; random UNCOALESCED square COO operators "
                "(duplicate entries, explicit zeros, N = 1..3) through SparseOperator apply_to/expect/+/scalar*; "
                "non-trivial = N >= 2 and a non-identity factor; distinct by input hash")
    ctx.trusted_base += ["hand-written Gallina models coq/Model/SvState.v and coq/Model/SvOps.v, validated by the exact "
                         "correspondences",
                         "torch coalesce()/to_dense()/to_sparse_csr() sum duplicate COO entries (the model keeps COO "
                         "lists uncoalesced and compares through to_dense; tied on uncoalesced inputs)",
                         "numpy kron / matmul for the independent references"]
    ctx.assumptions += [f"precision oracle: generic float inputs, N <= 6, tolerance {PREC_TOL} relative to the data "
                        "scale (float64 rounding there is <= ~1e-14; a pass through float32 is >= 1e-9)",
                        "N >= 1 (for N = 0 Python's format(0, '00b') returns '0', a string of length 1; the model "
                        "returns the empty string there)",
                        "StateVector._normalize (a float division by the norm) is rebound to a no-op for the exact "
                        "comparison of amplitude placement; the normalised result is checked with tolerance 1e-12",
                        "overlap and norm go through torch.abs / vector_norm and are checked with tolerance 1e-12",
                        "model tie for operators up to N = 4 (5 thorough); larger N are covered by the theorems and "
                        "by the numpy oracle on the real code"]


def replay(ctx, path):
    rp = json.loads(open(path).read())
    c = rp["case"]
    if c["kind"] == "bits":
        bits_check(ctx, c["N"])
        return
    ok = oracle(ctx, c, run_real(c))
    print("replay: oracle", "agrees" if ok else "DISAGREES", c["kind"], c.get("N"))


META = {
    "category": "proof",
    "technique": "Coq proof over an arbitrary commutative ring with involution (all N, all operator representations) + "
                 "exact dyadic correspondence of the Gallina models (Model/SvState.v, Model/SvOps.v) with the torch "
                 "classes, incl. uncoalesced COO data + numpy-reference falsifier",
    "text": ("Proved for every N: bitstring <-> index round trip (big-endian, r=1, g=0) and digit q = bit_q; the "
             "iterated Kronecker product of 2x2 factors has entries prod_q A_q[bit_q k, bit_q k']; sparse_kron and "
             "sparse_add agree entrywise with dense kron / add; from_state_vector gives psi_k conj(psi_k'); "
             "inner/overlap/expect are the stated sums. Proved for every N (also 0) and EVERY operator representation "
             "(any number of terms, nested tensor factors, multi-qubit / repeated / out-of-range targets): the 2x2 "
             "factor of a QuditOp has entry [a][b] = sum of the coefficients of 'ab' (C12_qudit_op_entry); the gate "
             "list has N factors and factor q is the LAST assignment to q, identity if none "
             "(C12_tensor_gates_last_wins); DenseOperator._from_operator_repr is 2^N x 2^N with <i|O|j> = sum_terms "
             "coeff * prod_q site_entry(q, bit_q i, bit_q j) (C12_dense_from_repr_entry); reduce(sparse_kron) == "
             "reduce(kron) (C12_sparse_kron_all_dense); THE DENSE AND SPARSE OPERATORS ALWAYS AGREE: same shape and "
             "SparseOperator(...).to_dense() == DenseOperator(...) entry by entry (C12_dense_sparse_agree), and their "
             "apply_to / expect coincide on every state (C12_dense_sparse_apply_agree); SparseOperator.apply_to / "
             "expect on ANY COO entry list (duplicates, any order) equal the dense matrix-vector product / "
             "vdot(v, M v) of to_dense() (C12_coo_apply_dense), scalar * sparse is entrywise (C12_coo_scale_dense); "
             "operator algebra: (A @ B).apply_to(v) = A.apply_to(B.apply_to(v)) (C12_apply_matmul), apply_to and "
             "expect are linear in the operator (C12_apply_linear, C12_expect_linear). Non-vacuity: "
             "C12_premises_satisfiable, C12_repr_entry_sample. Validated (not proved): the models are the torch code "
             "- two exact ties: Model.SvState (states, dense/sparse construction, COO kron/add) and Model.SvOps "
             "(repr_entry == real dense/sparse operator for N <= 4 (5 thorough); coo_apply/coo_expect/sparse_add/"
             "coo_scale == SparseOperator.apply_to/expect/__add__/__rmul__ on operators from representations (N <= 3) "
             "and on uncoalesced COO operators with duplicate entries, N <= 3)."),
    "note": ("Trusted: Coq kernel+VM, the hand-written models Model/SvState.v and Model/SvOps.v (tied exactly on every "
             "run), torch coalesce/to_dense/to_sparse_csr semantics (duplicates add; exercised by the uncoalesced-COO "
             "tie), exactness of float64 on small Gaussian integers. SparseOperator.__matmul__ raises "
             "NotImplementedError and the operator classes only accept StateVector (no density-matrix apply/expect "
             "path exists in emu_sv operators), so neither is modelled."),
}
