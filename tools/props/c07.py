"""C07 — Krylov exponentiation is accurate and honest about convergence (DESIGN.md §4 C07).

Proved (Coq, all oracle streams / all max_krylov_dim): the control contract of krylov_exp_impl /
krylov_exp (Model.KrylovExp.Control, three source variants: Original / Confirmed / ConfirmedMax, chosen from the
source text by source_variant()) and the Arnoldi/Lanczos relation + Hessenberg shape over an abstract module
(Model.KrylovExp.Full); the full model's flags are proved to follow the control model.  NOT done: the ext
theorem krylov_polynomial_exact (A^k v_0 = V_m T_m^k e_1).  Tie: hand-written model, checked on every run by
  (1) an exact correspondence of the control outcome: the real function is run with a logging `op`
      and a logging torch.linalg.matrix_exp, the oracle values n2_j / err1_j / err2_j are recomputed
      from the logs with the same torch calls and fed to the model; the harness also logs, per iteration, on which
      Lanczos vector op was called (caller frame: j, len(lanczos_vectors), call site) and which product the
      iteration orthogonalised; this trace is compared exactly with the model's cache machine (ktrace; theorem
      C07_cached_product_is_fresh); a product computed from another vector is VIOLATION stale-operator-product;
  (2) a numeric (tol) correspondence of the full model at complex binary64 for dimension <= 6.
Validated only (falsifier, NOT a theorem): "error <= 10 * tolerance * |v|" against scipy.linalg.expm.
"""
import json
import math

from vlib import common

HEADER = """From Coq Require Import ZArith List PrimFloat.
Import ListNotations.
From EV Require Import Base.Arith Model.KrylovExp.
Open Scope float_scope."""

ERRCODES = {"AssertionError": 1, "UnboundLocalError": 2, "RecursionError": 3, "IndexError": 4}
REL_INDET = 1e-3          # decisive quantity within this relative distance of the threshold: indeterminate
ROUND_ALLOW = 1e-12       # rounding allowance factor: ROUND_ALLOW * |v| * max(1, |A|_2)


# ---------------------------------------------------------------------------------------------
# operators of the three classes of the quantifier
def _np_rng(seed):
    import numpy as np
    return np.random.RandomState(seed % (2 ** 32))


def _unitary(r, d):
    import numpy as np
    q, rr = np.linalg.qr(r.randn(d, d) + 1j * r.randn(d, d))
    return q * (np.diag(rr) / np.abs(np.diag(rr)))


def _spectrum(r, d, kind):
    import numpy as np
    if kind == "uniform":
        lam = r.uniform(-1, 1, d)
    elif kind == "clustered":
        c = r.uniform(-1, 1, max(1, min(d, r.randint(1, 5))))
        lam = c[r.randint(0, len(c), d)] + 1e-8 * r.randn(d)
    elif kind == "degenerate":
        c = r.uniform(-1, 1, max(1, min(d, r.randint(1, 4))))
        lam = c[r.randint(0, len(c), d)]
    elif kind == "gapped":
        lam = r.uniform(-0.05, 0.05, d)
        lam[0] = 1.0
    elif kind == "zero":
        lam = np.zeros(d)
    else:
        raise ValueError(kind)
    m = np.max(np.abs(lam))
    return lam / m if m > 0 else lam


def _hermitian(r, d, kind):
    import numpy as np
    lam = _spectrum(r, d, kind)
    q = _unitary(r, d)
    h = (q * lam) @ q.conj().T
    return (h + h.conj().T) / 2, lam, q


def _jumps(r, d, n_jump, sparse):
    import numpy as np
    out = []
    for _ in range(n_jump):
        if sparse:
            L = np.zeros((d, d), dtype=complex)
            for _ in range(max(1, d // 2)):
                L[r.randint(0, d), r.randint(0, d)] = r.randn() + 1j * r.randn()
        else:
            L = (r.randn(d, d) + 1j * r.randn(d, d)) / math.sqrt(d)
        out.append(L)
    return out


def build_case(case):
    """-> (A: complex ndarray, v: complex ndarray, is_hermitian flag used for the call)."""
    import numpy as np
    if case.get("explicit"):
        e = case["explicit"]
        A = np.array(e["A_re"], dtype=float) + 1j * np.array(e["A_im"], dtype=float)
        v = np.array(e["v_re"], dtype=float) + 1j * np.array(e["v_im"], dtype=float)
        return A, v
    r = _np_rng(case["seed"])
    d, cls, spec = case["dim"], case["cls"], case["spectrum"]
    if case["start"] == "weakcoupled":
        # v = e_0 almost in the kernel: H e_0 = eps e_1, the rest of H is O(1); G (PSD) does not touch e_0
        m = r.randn(d, d) + 1j * r.randn(d, d)
        h = (m + m.conj().T) / (2 * math.sqrt(max(d, 1)))
        h[0, :] = 0
        h[:, 0] = 0
        if d > 1:
            h[0, 1] = h[1, 0] = case["eps_null"]
        if cls == "HG":
            L = (r.randn(d, d) + 1j * r.randn(d, d)) / math.sqrt(d)
            L[:, 0] = 0
            h = h - 0.5j * (L.conj().T @ L)
        v = np.zeros(d, dtype=complex)
        v[0] = case["vscale"]
        return -1j * case["dt"] * h, v
    if cls == "L":
        dd = case["d_local"]
        h, lam, q = _hermitian(r, dd, spec)
        Ls = _jumps(r, dd, case["n_jump"], case["sparse_jump"])
        I = np.eye(dd)
        gen = -1j * (np.kron(h, I) - np.kron(I, h.T))
        for L in Ls:
            LdL = L.conj().T @ L
            gen = gen + case["gamma"] * (np.kron(L, L.conj()) - 0.5 * np.kron(LdL, I) - 0.5 * np.kron(I, LdL.T))
        A = gen
        if case["start"] == "pure":
            psi = r.randn(dd) + 1j * r.randn(dd)
            psi /= np.linalg.norm(psi)
            v = np.outer(psi, psi.conj()).reshape(-1)
        elif case["start"] == "mixed":
            v = (np.eye(dd) / dd).reshape(-1).astype(complex)
        else:
            v = r.randn(dd * dd) + 1j * r.randn(dd * dd)
    else:
        if case["block"]:
            # block-diagonal operator, start vector in the first block: invariant subspace
            k = case["block"]
            h1, _, _ = _hermitian(r, k, spec)
            h2, _, _ = _hermitian(r, d - k, "uniform") if d > k else (np.zeros((0, 0)), None, None)
            h = np.zeros((d, d), dtype=complex)
            h[:k, :k] = h1
            h[k:, k:] = h2
            q = None
        else:
            h, lam, q = _hermitian(r, d, spec)
            if case["start"] == "nearnull":
                # start vector close to an exact null vector of H: |A v_0| << |A v_1|
                lam = lam.copy()
                lam[0] = 0.0
                h = (q * lam) @ q.conj().T
                h = (h + h.conj().T) / 2
        eff = h.astype(complex)
        if cls == "HG":
            Ls = _jumps(r, d, case["n_jump"], case["sparse_jump"])
            G = np.zeros((d, d), dtype=complex)
            for L in Ls:
                if case["block"]:
                    k = case["block"]
                    L2 = np.zeros_like(L)
                    L2[:k, :k] = L[:k, :k]
                    L2[k:, k:] = L[k:, k:]
                    L = L2
                G = G + L.conj().T @ L
            eff = eff - 0.5j * case["gamma"] * G
        A = -1j * eff
        if case["block"]:
            v = np.zeros(d, dtype=complex)
            k = case["block"]
            v[:k] = r.randn(k) + 1j * r.randn(k)
        elif case["start"] == "eigencombo" and q is not None:
            k = max(1, min(d, case["n_eig"]))
            idx = r.choice(d, k, replace=False)
            v = q[:, idx] @ (r.randn(k) + 1j * r.randn(k))
        elif case["start"] == "basis":
            v = np.zeros(d, dtype=complex)
            v[r.randint(0, d)] = 1.0
        elif case["start"] == "nearnull":
            u = r.randn(d) + 1j * r.randn(d)
            v = q[:, 0] + case["eps_null"] * u / np.linalg.norm(u)
        else:
            v = r.randn(d) + 1j * r.randn(d)
    nA = np.linalg.norm(A, 2) if A.size else 0.0
    if nA > 0:
        A = A * (case["anorm"] / nA)
    v = v * case["vscale"]
    return A, v


def gen_case(rng, small=False):
    cls = rng.choice(["H", "H", "HG", "L"])
    spec = rng.choice(["uniform", "uniform", "clustered", "degenerate", "gapped"])
    if small:
        dim = rng.randint(1, 6)
    else:
        dim = rng.choice([rng.randint(1, 8), rng.randint(1, 40), rng.randint(1, 256)])
    c = {"kind": "operator", "cls": cls, "spectrum": spec, "seed": rng.getrandbits(31),
         "block": 0, "start": rng.choice(["random", "random", "eigencombo", "basis", "nearnull"]),
         "eps_null": 10 ** rng.uniform(-7, -1),
         "n_eig": rng.randint(1, 6), "n_jump": rng.randint(0, 3), "sparse_jump": rng.random() < 0.5,
         "gamma": 10 ** rng.uniform(-3, 0.5), "vscale": rng.choice([1.0, 1.0, 10 ** rng.uniform(-6, 6)])}
    if cls == "L":
        dl = rng.randint(1, 2) if small else rng.randint(1, 16)
        c["d_local"] = dl
        dim = dl * dl
        c["start"] = rng.choice(["pure", "mixed", "random"])
    elif rng.random() < 0.2 and dim >= 2:
        c["block"] = rng.randint(1, min(dim - 1, 8))
    c["dim"] = dim
    c["anorm"] = 10 ** rng.uniform(-3, 1.5)
    tol = 10 ** rng.uniform(-12, -4)
    c["exp_tol"] = tol
    c["norm_tol"] = tol if rng.random() < 0.7 else 10 ** rng.uniform(-12, -4)
    if small:
        c["max_dim"] = rng.randint(1, 6)
    else:
        c["max_dim"] = rng.choice([100, rng.randint(1, 10), rng.randint(1, 100)])
    c["herm_flag"] = (cls == "H") and rng.random() < 0.8
    return c


def gen_weak(rng):
    """Weakly coupled start vector (register in |0..0> at the start of an amplitude ramp): the first estimate is
    tiny, the confirmation with |op(v_1)| rejects it, the iteration has to go on."""
    eps = rng.choice([1e-3, 1e-4, 1e-5, 1e-6, 1e-7])
    tol = max(1e-12, eps * 10.0 ** (-rng.choice([1, 2, 3, 3, 4, 5])))
    cls = rng.choice(["H", "H", "HG"])
    dt = rng.choice([0.1, 0.5, 0.5, 1.0, 3.0])
    return {"kind": "operator-weak", "cls": cls, "spectrum": "weakcoupled", "seed": rng.getrandbits(31), "block": 0,
            "start": "weakcoupled", "eps_null": eps, "dt": dt, "n_eig": 0, "n_jump": 0, "sparse_jump": False,
            "gamma": 1.0, "vscale": rng.choice([1.0, 1.0, 3.7]), "dim": rng.choice([3, 4, 6, 8, 32, 64, 128]),
            "anorm": 2.0 * dt, "exp_tol": tol, "norm_tol": rng.choice([tol, 1e-12]),
            "max_dim": rng.choice([4, 6, 20, 100, 100]), "herm_flag": cls == "H" and rng.random() < 0.7}


def gen_malformed(rng):
    c = gen_case(rng, small=True)
    how = rng.choice(["maxdim0", "zero_v", "nan_op", "tol0", "negtol", "inftol", "zero_op"])
    c["kind"] = "malformed:" + how
    if how == "maxdim0":
        c["max_dim"] = 0
    elif how == "zero_v":
        c["vscale"] = 0.0
    elif how == "nan_op":
        c["anorm"] = float("nan")
    elif how == "tol0":
        c["exp_tol"] = 0.0
        c["norm_tol"] = 0.0
    elif how == "negtol":
        c["exp_tol"] = -1.0
        c["norm_tol"] = -1e-3
    elif how == "inftol":
        c["exp_tol"] = float("inf")
    elif how == "zero_op":
        c["spectrum"] = "zero"
        c["cls"] = "H"
        c["block"] = 0
        c["herm_flag"] = True
        if c["start"] in ("pure", "mixed"):
            c["start"] = "random"
    return c


def corpus_cases():
    p = common.VERIF / "corpus" / "C07.json"
    return json.loads(p.read_text()) if p.exists() else []


# ---------------------------------------------------------------------------------------------
# which variant of the source is this?  (original / with the confirmation step of
# proposed_fixes/converged-inaccurate.diff).  Fail closed: anything else is a broken obligation.
MODEL_SLACK = 3


def source_variant():
    """-> (variant: "Original" | "Confirmed" | "ConfirmedMax", problem: str | None)"""
    import ast
    src = (common.REPO / "emu_base/math/krylov_exp.py").read_text()
    fn = next((n for n in ast.parse(src).body if isinstance(n, ast.FunctionDef) and n.name == "krylov_exp_impl"), None)
    if fn is None:
        return "Original", "krylov_exp_impl not found"
    tests = [ast.unparse(n.test) for n in ast.walk(fn) if isinstance(n, ast.If)]
    n_conv = tests.count("err < exp_tolerance")
    n_bd = tests.count("n2 < norm_tolerance")
    confirm = [t for t in tests if "confirmed" in t]
    names = {n.id for n in ast.walk(fn) if isinstance(n, ast.Name)}
    n_ops = sum(1 for n in ast.walk(fn) if isinstance(n, ast.Call) and ast.unparse(n.func) == "op")
    if n_bd != 1:
        return "Original", f"expected one `if n2 < norm_tolerance`, found {n_bd}"
    if "confirmed" not in names:
        if n_conv == 1 and n_ops == 1:
            return "Original", None
        return "Original", f"unrecognised shape: {n_conv} convergence tests, {n_ops} op calls"
    assigns = [ast.unparse(n.value) for n in ast.walk(fn) if isinstance(n, ast.Assign)
               and ast.unparse(n.targets[0]) == "confirmed"]
    shape_ok = n_conv == 2 and n_ops == 2 and confirm == [f"not confirmed < {MODEL_SLACK} * exp_tolerance"]
    if shape_ok and assigns == ["err1 if err1 < err2 else err1 * err2 / (err1 - err2)"]:
        return "Confirmed", None
    if shape_ok and assigns == ["err2 if err1 < err2 else err1 * err2 / (err1 - err2)"]:
        return "ConfirmedMax", None
    return "Confirmed", (f"unrecognised confirmation step: tests={tests}, confirmed={assigns}, op calls={n_ops} "
                         f"(model has SLACK={MODEL_SLACK})")


def _confirm_call_lines():
    """Line numbers of the `op(...)` calls inside an `if ... exp_tolerance` block of krylov_exp_impl."""
    import ast
    src = (common.REPO / "emu_base/math/krylov_exp.py").read_text()
    fn = next((n for n in ast.parse(src).body if isinstance(n, ast.FunctionDef) and n.name == "krylov_exp_impl"), None)
    lines = set()
    if fn is not None:
        for node in ast.walk(fn):
            if isinstance(node, ast.If) and "exp_tolerance" in ast.unparse(node.test):
                for sub in ast.walk(node):
                    if isinstance(sub, ast.Call) and ast.unparse(sub.func) == "op":
                        lines.add(sub.lineno)
    return lines


# ---------------------------------------------------------------------------------------------
# running the real code with interposition (module-level names only, restored afterwards)
class _Proxy:
    def __init__(self, target, **over):
        self.__dict__["_t"] = target
        self.__dict__["_o"] = over

    def __getattr__(self, name):
        o = self.__dict__["_o"]
        if name in o:
            return o[name]
        return getattr(self.__dict__["_t"], name)


def real_run(case, A=None, v=None):
    """Run krylov_exp_impl and the public krylov_exp on the case; log op / matrix_exp calls."""
    import torch
    import importlib
    ke = importlib.import_module("emu_base.math.krylov_exp")  # the attribute of the package is the function

    if A is None:
        A, v = build_case(case)
    At = torch.tensor(A, dtype=torch.complex128)
    vt = torch.tensor(v, dtype=torch.complex128)
    log = {"op_out": [], "op_in": [], "mexp": [], "T": None, "calls": [], "events": []}
    confirm_lines = _confirm_call_lines()

    def op(x):
        import sys
        fr = sys._getframe(1)
        loc = fr.f_locals if fr.f_code.co_name == "krylov_exp_impl" else {}
        lv = loc.get("lanczos_vectors")
        call = {"j": loc.get("j"), "vec": (len(lv) - 1) if lv is not None else None,
                "newest": bool(lv is not None and x is lv[-1]),
                "kind": "confirm" if fr.f_lineno in confirm_lines else "top"}
        log["op_in"].append(x.clone())
        y = At @ x
        log["op_out"].append(y.clone())
        call["out"] = log["op_out"][-1]
        log["calls"].append(call)
        log["events"].append(("op", call))
        return y

    def matrix_exp(M):
        out = torch.linalg.matrix_exp(M)
        base = M._base if M._base is not None else M
        log["T"] = base            # the one T tensor of the run (views share it)
        log["mexp"].append((int(M.shape[0]), out.clone()))
        log["events"].append(("mexp", int(M.shape[0])))
        return out

    proxy = _Proxy(torch, linalg=_Proxy(torch.linalg, matrix_exp=matrix_exp))
    saved = ke.torch
    out = {"exc": None}
    try:
        ke.torch = proxy
        try:
            r = ke.krylov_exp_impl(op, vt.clone(), is_hermitian=case["herm_flag"],
                                   exp_tolerance=case["exp_tol"], norm_tolerance=case["norm_tol"],
                                   max_krylov_dim=case["max_dim"])
            out.update(converged=bool(r.converged), happy=bool(r.happy_breakdown),
                       iters=int(r.iteration_count), result=r.result)
        except (AssertionError, UnboundLocalError, IndexError) as ex:
            out["exc"] = type(ex).__name__
            r = None
    finally:
        ke.torch = saved
    # public entry point: same inputs; krylov_exp_impl rebound to return the result just computed
    saved_impl = ke.krylov_exp_impl

    def cached_impl(*a, **k):
        if r is None:
            return saved_impl(*a, **k)
        return r

    try:
        ke.krylov_exp_impl = cached_impl if r is not None else saved_impl
        try:
            pub = ke.krylov_exp(lambda x: At @ x, vt.clone(), exp_tolerance=case["exp_tol"],
                                norm_tolerance=case["norm_tol"], is_hermitian=case["herm_flag"],
                                max_krylov_dim=case["max_dim"])
            out["pub_exc"] = None
            out["pub_same"] = (r is not None) and (pub is r.result)
        except (RecursionError, AssertionError, UnboundLocalError, IndexError) as ex:
            out["pub_exc"] = type(ex).__name__
    finally:
        ke.krylov_exp_impl = saved_impl
    # observed trace: per executed iteration (one matrix_exp call each) which operator product it used
    # (index of the Lanczos vector op was applied to) and whether the confirmation product was computed
    trace, last_confirm, it = [], None, 0
    pending_top = None
    for kind, ev in log["events"]:
        if kind == "op":
            if ev["kind"] == "top":
                pending_top = ev
            else:
                last_confirm = ev
                if trace:
                    trace[-1]["confirm"] = True
                    trace[-1]["confirm_call"] = ev
        else:
            src = pending_top if pending_top is not None else last_confirm
            trace.append({"j": it, "used": src["vec"] if src is not None else None, "fresh": pending_top is not None,
                          "src": src, "confirm": False, "confirm_call": None})
            pending_top = None
            it += 1
    out["trace"] = [(t["j"], (t["used"], t["confirm"])) for t in trace]
    out["bad_call"] = next((c for c in log["calls"] if not c["newest"]), None)
    # oracle values recomputed from the logs with the same torch calls as the source
    T = log["T"]
    out["n_op_calls"] = len(log["op_out"])
    n2s, e1s, e2s, e2cs = [], [], [], []
    ext = [(sz, e) for (sz, e) in log["mexp"]]
    n_it = out["iters"] if out["exc"] is None else len(trace)
    for j in range(n_it):
        t = trace[j] if j < len(trace) else None
        n = t["src"]["out"].norm() if t is not None and t["src"] is not None else None
        n2s.append(float(T[j + 1, j].real) if T is not None else float("nan"))
        # the extended-T exponential of iteration j is the (j)-th logged call of size j + 3, if made
        e = next((x for (sz, x) in ext[j:j + 1] if sz == j + 3), None)
        if e is None or n is None:
            e1s.append(float("nan"))
            e2s.append(float("nan"))
            e2cs.append(float("nan"))
        else:
            e1s.append(float(abs(e[j + 1, 0])))
            e2s.append(float(abs(e[j + 2, 0] * n)))
            cc = t["confirm_call"]
            e2cs.append(float(abs(e[j + 2, 0] * cc["out"].norm())) if cc is not None else float("nan"))
    out.update(n2s=n2s, e1s=e1s, e2s=e2s, e2cs=e2cs, log=log, A=A, v=v)
    return out


def control_expr(case, run, fixed):
    fl = common.float_lit
    lst = lambda xs: "[" + "; ".join(fl(x) for x in xs) + "]"
    args = (f"float_arith {fixed} (stream nan {lst(run['n2s'])}) (stream nan {lst(run['e1s'])}) "
            f"(stream nan {lst(run['e2s'])}) (stream nan {lst(run['e2cs'])}) "
            f"{fl(case['norm_tol'])} {fl(case['exp_tol'])} {case['max_dim']}")
    targs = args.rsplit(" ", 1)[0]
    return (f"(outcome (kexp_impl {args}), outcome (kexp_public {args}), "
            f"ktrace {targs} {case['max_dim']} 0 None)")


def impl_outcome(run):
    if run["exc"]:
        a = (ERRCODES[run["exc"]], (False, (False, 0)))
    else:
        a = (0, (run["converged"], (run["happy"], run["iters"])))
    if run["pub_exc"]:
        b = (ERRCODES[run["pub_exc"]], (False, (False, 0)))
    else:
        b = a
    return (a, b)


# ---------------------------------------------------------------------------------------------
# property oracle on the real code = the falsifier
def reference(A, v):
    import numpy as np
    import scipy.linalg
    if A.shape[0] == 0:
        return v
    return scipy.linalg.expm(A) @ v


def rebuilt_error(run, ref):
    """Error of the result rebuilt from the logged Krylov basis and T with scipy's expm (diagnosis only)."""
    import numpy as np
    import scipy.linalg
    try:
        m = run["iters"]
        T = run["log"]["T"].numpy()
        V = [x.numpy().reshape(-1) for x in run["log"]["op_in"]][:m]
        if run["happy"]:
            size = m
        else:
            j = m - 1   # v_{j+1} from the Arnoldi relation (it was appended but op was never applied to it)
            w = run["log"]["op_out"][j].numpy().reshape(-1) - sum(T[k, j] * V[k] for k in range(j + 1))
            V.append(w / T[j + 1, j])
            size = m + 2
        e = scipy.linalg.expm(T[:size, :size])[:, 0]
        res = np.linalg.norm(run["v"]) * sum(a * b for a, b in zip(e[:len(V)], V))
        return float(np.linalg.norm(res - ref.reshape(-1)))
    except Exception:
        return None


def property_check(ctx, case, run, stats):
    import numpy as np
    if case["kind"].startswith("malformed"):
        # honesty part only: a run that did not converge must not return from the public entry point
        if run["exc"] is None and not run["converged"] and run["pub_exc"] is None:
            ctx.violation("krylov_exp returned a vector although krylov_exp_impl reported non-convergence",
                          {"case": case, "finding_key": "nonconverged-returned"})
        return "malformed"
    if run["exc"] is not None:
        ctx.violation(f"krylov_exp_impl raised {run['exc']} on a well-formed input",
                      {"case": case, "finding_key": "impl-raises-" + run["exc"]})
        return "raised"
    stale = next(((j, used) for j, (used, _c) in run.get("trace", []) if used != j), None)
    if stale is not None or run.get("bad_call") is not None:
        what = (f"iteration {stale[0]} orthogonalised an operator product computed from Lanczos vector {stale[1]} "
                f"(stale cached product w_next)") if stale is not None else \
            f"op was applied to a tensor that is not the newest Lanczos vector (iteration {run['bad_call']['j']})"
        ctx.violation(what + f"; outcome converged={run['converged']} happy={run['happy']} iters={run['iters']}",
                      {"case": case, "trace": run.get("trace"), "finding_key": "stale-operator-product"})
    if run["happy"] and not run["converged"]:
        ctx.violation("happy_breakdown without converged", {"case": case, "finding_key": "happy-not-converged"})
    if not run["converged"]:
        if run["pub_exc"] != "RecursionError":
            ctx.violation("krylov_exp did not raise RecursionError although not converged",
                          {"case": case, "finding_key": "nonconverged-returned"})
        return "nonconverged"
    if run["pub_exc"] is not None or not run.get("pub_same"):
        ctx.violation("krylov_exp raised / returned something else although krylov_exp_impl converged",
                      {"case": case, "finding_key": "converged-raised"})
        return "converged"
    A, v = run["A"], run["v"]
    ref = reference(A, v)
    res = run["result"].numpy()
    err = float(np.linalg.norm(res - ref))
    vn = float(np.linalg.norm(v))
    an = float(np.linalg.norm(A, 2)) if A.size else 0.0
    tol = max(case["exp_tol"], case["norm_tol"]) if run["happy"] else case["exp_tol"]
    allow = 10 * tol * vn + ROUND_ALLOW * vn * max(1.0, an)
    ratio = err / (tol * vn) if vn > 0 else 0.0
    stats["max_ratio"] = max(stats.get("max_ratio", 0.0), ratio)
    if not (err == err):
        ctx.violation("converged result contains NaN", {"case": case, "finding_key": "converged-nan"})
        return "converged"
    if abs(err - allow) <= REL_INDET * allow:
        stats["indeterminate"] = stats.get("indeterminate", 0) + 1
        return "indeterminate"
    if err > allow:
        key, why = "converged-inaccurate" + ("-breakdown" if run["happy"] else ""), ""
        err_sc = rebuilt_error(run, ref)
        if err_sc is not None and err_sc <= allow * (1 - REL_INDET):
            # the same Krylov basis and T with scipy's expm in place of torch.linalg.matrix_exp is accurate
            key = "converged-inaccurate-torch-matrix-exp"
            why = (f"; with scipy.linalg.expm(T) instead of torch.linalg.matrix_exp(T) the error is {err_sc:.3e}: "
                   "torch.linalg.matrix_exp is only accurate to ~3e-11 for |T|_1 in (3.4e-4, 5e-2]")
        ctx.violation(
            f"converged={run['converged']} happy={run['happy']} after {run['iters']} iterations but "
            f"|result - expm(A)v| = {err:.3e} > 10*tol*|v| + rounding = {allow:.3e} (tol={tol:.1e}, |A|={an:.2e})" + why,
            {"case": case, "err": err, "allow": allow, "iters": run["iters"], "finding_key": key})
    return "happy" if run["happy"] else "converged"


# ---------------------------------------------------------------------------------------------
# numeric correspondence of the full model (complex binary64, dimension <= 6)
def full_expr(case, run, fixed):
    fl = common.float_lit
    cx = lambda z: f"({fl(float(z.real))}, {fl(float(z.imag))})"
    vec = lambda xs: "[" + "; ".join(cx(complex(x)) for x in xs) + "]"
    A, v = run["A"], run["v"]
    M = "[" + "; ".join(vec(row) for row in A) + "]"
    tab = {}
    for sz, e in run["log"]["mexp"]:
        tab[sz] = e[:, 0].numpy()          # later calls of the same size win (see Model: lookup)
    tabs = "[" + "; ".join(f"({sz}%nat, {vec(col)})" for sz, col in sorted(tab.items())) + "]"
    b = "true" if case["herm_flag"] else "false"
    return (f"CF.kexp_float {fixed} {M} {vec(v)} {b} {fl(case['exp_tol'])} {fl(case['norm_tol'])} "
            f"{case['max_dim']} {tabs}")


def full_compare(case, run, parsed):
    """-> (ok, detail, indeterminate)"""
    import numpy as np
    code, (conv, (happy, iters)), (res, tdump) = parsed    # Coq prints ((a, b), c) as (a, b, c)
    impl = impl_outcome(run)[0]
    model = (code, (conv, (happy, iters)))
    # a continued iteration whose n2 is rounding noise (Krylov space exhausted but n2 >= norm_tol, or
    # non-finite data) normalises noise: the next vectors are not comparable across summation orders
    cont = run["n2s"][:-1] if run.get("happy") else run["n2s"]
    amp, sc = 1.0, max(1e-300, case["anorm"])
    for x in cont:
        if not math.isfinite(x) or x <= 0:
            return True, "", True
        amp *= max(1.0, sc / x)      # w / n2 amplifies the rounding error of w by |A| / n2
    if 1e-16 * amp > 1e-11:
        return True, "", True
    if impl != model:
        # a decision within 1e-9 relative of its threshold may legitimately flip (summation order)
        near = False
        for j, (n2, e1, e2) in enumerate(zip(run["n2s"], run["e1s"], run["e2s"])):
            if abs(n2 - case["norm_tol"]) <= 1e-9 * abs(case["norm_tol"]):
                near = True
            err = e1 if e1 < e2 else (e1 * e2 / (e1 - e2) if e1 != e2 else float("inf"))
            if abs(err - case["exp_tol"]) <= 1e-9 * abs(case["exp_tol"]):
                near = True
        if near:
            return True, "", True
        return False, f"outcome impl={impl} model={model}", False
    if run["exc"]:
        return True, "", False
    r_impl = run["result"].numpy().reshape(-1)
    r_mod = np.array([complex(a, b) for a, b in res])
    scale = max(1e-300, float(np.linalg.norm(run["v"])))
    if r_mod.shape != r_impl.shape:
        return False, f"result length {r_mod.shape} vs {r_impl.shape}", False
    if not np.all(np.isfinite(r_impl)):
        return True, "", True
    dr = float(np.max(np.abs(r_mod - r_impl))) / scale if r_impl.size else 0.0
    n = iters + 2
    T = run["log"]["T"].numpy()[:n, :n]
    Tm = np.array([complex(a, b) for a, b in tdump]).reshape(n, n)
    tscale = max(1.0, float(np.max(np.abs(T))))
    # entries below norm_tol-size are dominated by cancellation; compare absolutely against the scale
    dT = float(np.max(np.abs(T - Tm))) / tscale
    ok = dr <= 1e-9 and dT <= 1e-9
    return ok, f"max rel diff result={dr:.2e} T={dT:.2e}", False


# ---------------------------------------------------------------------------------------------
def run(ctx):
    from vlib.coqparse import parse

    rc, out = common.coq_make(["Model/KrylovExp.vo"])
    ctx.obligation("build:Model/KrylovExp.vo", rc == 0, out, kind="build")
    model_ok = rc == 0
    common.standard_proof_stage(ctx, "C07", ["Properties/C07.vo"])

    fixed, problem = source_variant()
    ctx.obligation("source-variant:krylov_exp_impl is the original or the confirmed-estimate variant the model knows",
                   problem is None, problem or "", kind="translator")
    ctx.extra["source_variant"] = fixed

    cases = list(corpus_cases())
    n_op, n_small, n_mal = ctx.n(110, 2200), ctx.n(40, 300), ctx.n(30, 200)
    cases += [gen_case(ctx.rng) for _ in range(n_op)]
    small = [gen_case(ctx.rng, small=True) for _ in range(n_small)]
    for c in small:
        c["kind"] = "operator-small"
    cases += small
    cases += [gen_weak(ctx.rng) for _ in range(ctx.n(45, 500))]
    cases += [gen_malformed(ctx.rng) for _ in range(n_mal)]

    runs, stats, hist = [], {}, {}
    for c in cases:
        r = real_run(c)
        runs.append(r)
        verdict = property_check(ctx, c, r, stats)
        key = f"{c['kind'].split(':')[0]}/{c['cls']}/{verdict}"
        hist[key] = hist.get(key, 0) + 1
        tr = r.get("trace", [])
        failed = [j for j, (_u, cf) in tr if cf and j < len(tr) - 1]
        skipped = [j for j in failed if j + 2 < len(tr) and not tr[j + 1][1][1]]
        stats["confirm_called"] = stats.get("confirm_called", 0) + (1 if any(cf for _j, (_u, cf) in tr) else 0)
        stats["confirm_failed"] = stats.get("confirm_failed", 0) + (1 if failed else 0)
        stats["confirm_failed_then_skipped"] = stats.get("confirm_failed_then_skipped", 0) + (1 if skipped else 0)
    ctx.extra["input_distribution"] = dict(sorted(hist.items()))
    ctx.extra["falsifier"] = {
        "acceptance_rule": ("converged => |result - scipy.linalg.expm(A) v|_2 <= 10*tol*|v| + "
                            f"{ROUND_ALLOW}*|v|*max(1,|A|_2), tol = exp_tolerance (max(exp,norm) on happy "
                            f"breakdown); within {REL_INDET} relative of the threshold = indeterminate; "
                            "not converged => krylov_exp raises RecursionError"),
        "max_error_over_tol_times_norm": stats.get("max_ratio", 0.0),
        "cases_with_confirmation_computed": stats.get("confirm_called", 0),
        "cases_with_confirmation_failed": stats.get("confirm_failed", 0),
        "cases_with_confirmation_failed_then_next_iteration_skipping_it": stats.get("confirm_failed_then_skipped", 0),
        "indeterminate": stats.get("indeterminate", 0),
        "dims": sorted({c["dim"] for c in cases})[:8] + ["...", max(c["dim"] for c in cases)],
    }

    # ---- (1) exact correspondence of the control contract
    corr_ok, detail = model_ok, "" if model_ok else "model does not build"
    if model_ok:
        try:
            ev = common.CoqEval("C07", HEADER)
            for c, r in zip(cases, runs):
                ev.add(control_expr(c, r, fixed))
            outs = ev.run()
            for c, r, o in zip(cases, runs, outs):
                m = parse(o)     # Coq prints ((a, b), c) as (a, b, c)
                mtrace = [tuple(x) if not isinstance(x, tuple) else x for x in m[3]]
                m = ((m[0], m[1]), m[2])
                i = impl_outcome(r)
                if r["exc"] is None and mtrace != r["trace"] and corr_ok:
                    corr_ok = False
                    detail = f"case={c} operator-product trace impl={r['trace']} model={mtrace}"
                    ctx.extra["first_disagreement"] = {"case": c, "impl_trace": str(r["trace"]), "model_trace": str(mtrace)}
                nontrivial = r["n_op_calls"] >= 2
                ctx.count_case({k: c[k] for k in ("kind", "cls", "spectrum", "dim", "anorm", "exp_tol",
                                                  "norm_tol", "max_dim", "herm_flag", "seed")} |
                               {"outcome": str(i[0]), "op_calls": r["n_op_calls"]}, nontrivial)
                # operator applications: one per iteration (+ the final confirmation in the fixed variant)
                consistent = (r["exc"] is not None) or (r["n_op_calls"] == r["iters"]) or \
                    (fixed != "Original" and r["n_op_calls"] == r["iters"] + 1)
                if (m != i or not consistent) and corr_ok:
                    corr_ok = False
                    detail = f"case={c} impl={i} model={m} op_calls={r['n_op_calls']}"
                    ctx.extra["first_disagreement"] = {"case": c, "impl": str(i), "model": str(m)}
        except (common.CoqEvalError, ValueError) as ex:
            corr_ok, detail = False, str(ex)
    ctx.obligation("correspondence:Model.KrylovExp.Control==krylov_exp_impl/krylov_exp "
                   "(outcome tuple and per-iteration operator-product/cache trace exact, oracle values recomputed from logged torch calls)",
                   corr_ok, detail, kind="correspondence")

    # ---- (2) numeric correspondence of the full model on small dimensions
    full_ok, fdetail, n_full, n_indet = model_ok, "" if model_ok else "model does not build", 0, 0
    if model_ok:
        try:
            sel = [(c, r) for c, r in zip(cases, runs)
                   if c["dim"] <= 6 and c["max_dim"] <= 8 and math.isfinite(c["anorm"])]
            sel = sel[: ctx.n(60, 400)]
            ev = common.CoqEval("C07full", HEADER)
            for c, r in sel:
                ev.add(full_expr(c, r, fixed))
            outs = ev.run(shard=60)
            worst = ""
            for (c, r), o in zip(sel, outs):
                ok, d, indet = full_compare(c, r, parse(o))
                n_full += 1
                n_indet += indet
                if not ok and full_ok:
                    full_ok, fdetail = False, f"case={c} {d}"
                worst = max(worst, d)
            ctx.extra["full_model_cases"] = {"compared": n_full, "indeterminate": n_indet, "tol": 1e-9}
        except (common.CoqEvalError, ValueError) as ex:
            full_ok, fdetail = False, str(ex)
    ctx.obligation("correspondence:Model.KrylovExp.Full(CF instance)==krylov_exp_impl "
                   "(outcome exact, T and result within 1e-9 relative, dim<=6)",
                   full_ok, fdetail, kind="correspondence")

    ctx.rule = ("operators of the three classes (-i dt H; -i dt (H - iG/2), G PSD; dt * Lindblad generator), "
                "dimension 1..256, uniform/clustered/degenerate/gapped spectra, invariant subspaces (block / "
                "eigen-combination / basis start vectors), |A| in 1e-3..30, tolerances 1e-12..1e-4, max_krylov_dim "
                "1..100, plus malformed inputs (max_dim 0, zero/NaN vectors, zero/negative/inf tolerances); one PRNG; "
                "non-trivial = at least 2 operator applications; distinct by input hash")
    ctx.trusted_base += [
        "hand-written model Model/KrylovExp.v (validated by the two correspondences on every run)",
        "Coq PrimFloat = IEEE binary64 as used by torch float64 scalar ops (bit-exact comparisons)",
        "torch.linalg.matrix_exp, op, norm, tensordot are oracles of the model (their values are logged from the real run)",
        "scipy.linalg.expm as reference of the falsifier"]
    ctx.assumptions += [
        "NOT PROVED: 'error <= 10 * tolerance * |v|' — the Expokit quantity is an a-posteriori estimate, no theorem "
        "exists; it is only validated by the falsifier against scipy.linalg.expm with the acceptance rule in "
        "coverage.falsifier.acceptance_rule",
        "dtype complex128/float64; comparisons n2 < norm_tolerance, err < exp_tolerance are binary64 comparisons",
        "arnoldi_relation is an exact-arithmetic statement over an abstract module; rounding and loss of "
        "orthogonality are outside it; the ext theorem krylov_polynomial_exact of DESIGN.md is not delivered",
    ]
    ctx.notes.append("max_krylov_dim = 0 makes krylov_exp_impl raise UnboundLocalError (expd unbound), not RecursionError; "
                     "it is outside the quantifier (1..100), modelled as Err E_UNBOUND and covered by the correspondence")


def replay(ctx, path):
    rp = json.loads(open(path).read())
    c = rp["case"]
    r = real_run(c)
    stats = {}
    print("replay:", {k: r.get(k) for k in ("exc", "converged", "happy", "iters", "pub_exc")})
    print("verdict:", property_check(ctx, c, r, stats), stats)


META = {
    "category": "proof",
    "technique": ("Coq proof over a hand-written Gallina model (control state machine over oracle streams + "
                  "Arnoldi/Lanczos recurrence over an abstract module) tied by exact/tol correspondence; "
                  "accuracy claim validated by a falsifier against scipy.linalg.expm"),
    "text": ("Proved for every oracle stream and every max_krylov_dim (incl. 0): converged <-> some iteration j < "
             "max_dim had n2_j < norm_tol or err_j < exp_tol; iteration_count = least such j + 1; happy_breakdown -> "
             "converged; krylov_exp returns iff converged and raises otherwise. Proved over an abstract module: the "
             "Arnoldi relation A v_j = sum_k T[k,j] v_k + T[j+1,j] v_{j+1} for every completed iteration of both the "
             "full and the two-term (is_hermitian) variant (no extra premise for the two-term one) and the Hessenberg shape "
             "of T; the flags of the full model equal the control model on the streams it computes. All for the three "
             "variants of the convergence test (upstream / confirmed estimate / conservative confirmation), selected "
             "from the source text. NOT proved, only validated: the '10 x tolerance' accuracy (Expokit estimate is a "
             "heuristic). NOT done: ext krylov_polynomial_exact."),
    "note": ("Trusted: Coq kernel+VM, hand-written model (checked by correspondence on every run: exact control "
             "outcome from logged oracle values; full model within 1e-9 for dim<=6), scipy.linalg.expm reference, "
             "binary64 = PrimFloat. Rounding allowance of the falsifier 1e-12*|v|*max(1,|A|)."),
}
