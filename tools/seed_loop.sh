#!/bin/bash
# usage: seed_loop.sh <prefix>  -- evaluates /tmp/<prefix>_Cxx worktrees as soon as their DONE file exists.
prefix=$1
declare -A REL=( [C01]="C06 C07" [C02]="C05 C03" [C03]="C02" [C04]="C33" [C05]="C02" [C06]="C01 C16" [C07]="C01" [C08]="C09"
 [C09]="C08" [C10]="C11" [C11]="C10" [C12]="C13" [C13]="C12" [C14]="C21" [C15]="" [C16]="C06" [C17]="C18" [C18]="C17 C19"
 [C19]="C18" [C20]="C22" [C21]="C14" [C22]="C20" [C23]="C31" [C24]="C17" [C25]="C13" [C26]="C27" [C27]="C26" [C28]="C02"
 [C29]="C06 C01" [C30]="" [C31]="C23" [C32]="C03" [C33]="C04" [C34]="C23" )
cd /verif
while true; do
  pending=0
  for wt in /tmp/${prefix}_C*; do
    [ -d "$wt" ] || continue
    id=${wt##*_}
    sid=${prefix}-$id
    if [ -f seeded/$sid/result.json ]; then continue; fi
    pending=1
    if [ -f $wt/DONE ]; then
      timeout 5000 /venv/bin/python tools/seed_eval.py $sid $wt $id ${REL[$id]} > build/seed_eval_$sid.log 2>&1
    fi
  done
  [ $pending = 0 ] && break
  sleep 30
done
