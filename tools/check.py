"""Single entry point of the verification machinery (see DESIGN.md §1)."""
import argparse
import importlib
import os
import sys
import traceback

sys.path.insert(0, os.path.dirname(__file__))
from vlib import common  # noqa: E402


def prop_modules():
    d = os.path.join(os.path.dirname(__file__), "props")
    return sorted(f[:-3] for f in os.listdir(d) if f.startswith("c") and f.endswith(".py"))


def regen_all() -> int:
    rc = 0
    for m in prop_modules():
        mod = importlib.import_module(f"props.{m}")
        if hasattr(mod, "gen"):
            try:
                for path, text in mod.gen():
                    common.write_if_changed(path, text)
            except Exception as ex:  # translator failed: leave a stub so the build reports it
                print(f"[regen] {m}: {ex}")
                rc = 1
    return rc


def coqchk_all() -> int:
    """coqchk -o over all property files: exit 0 iff the independent checker accepts every compiled file,
    nothing relies on type-in-type / unsafe fixpoints / assumed positivity, and every axiom in the context is
    a standard-library one from the allow-list (or a primitive)."""
    rc = regen_all()
    rc2, out = common.coq_make([], timeout=3400, jobs=16)
    if rc or rc2:
        print(out[-3000:])
        return 1
    mods = sorted("EV.Properties." + f[:-3] for f in os.listdir(common.COQ / "Properties") if f.endswith(".vo"))
    r, out = common.sh(["coqchk", "-silent", "-o", "-Q", ".", "EV", *mods], cwd=common.COQ, timeout=6000)
    dst = common.VERIF / "docs" / "coqchk_summary.txt"
    dst.write_text(out)
    ok = r == 0
    axioms, section = [], None
    for line in out.splitlines():
        if line.startswith("* "):
            section = line
            if ("type-in-type" in line or "unsafe" in line or "positivity" in line) and "<none>" not in line:
                ok = False
        elif section and section.startswith("* Axioms") and line.strip():
            axioms.append(line.strip())
    real = [a for a in axioms if not any(pfx in a for pfx in common.PRIMITIVE_PREFIXES + ("SpecFloat.", "FloatOps."))]
    unknown = [a for a in real if not any(a.endswith(al) for al in common.ALLOWED_AXIOMS)]
    print(f"[coqchk] rc={r} modules={len(mods)} axioms(non-primitive)={real} unknown={unknown}")
    return 0 if ok and not unknown else 1


def main() -> int:
    ap = argparse.ArgumentParser()
    ap.add_argument("prop", nargs="?")
    ap.add_argument("--tier", default=os.environ.get("VERIF_TIER", "quick"))
    ap.add_argument("--replay")
    ap.add_argument("--regen", action="store_true")
    ap.add_argument("--setup", action="store_true")
    ap.add_argument("--coqchk", action="store_true",
                    help="re-check every Properties/*.vo (and all they depend on) with the independent checker")
    a = ap.parse_args()
    if a.coqchk:
        return coqchk_all()
    if a.regen or a.setup:
        rc = regen_all()
        if a.setup:
            bad = common.forbidden_scan()
            if bad:
                print("forbidden tokens:\n" + "\n".join(bad))
                return 1
            rc2, out = common.coq_make([], timeout=3400, jobs=16)
            print(out[-4000:])
            return rc or rc2
        return rc
    if not a.prop:
        ap.error("property id required")
    seed = int(os.environ.get("VERIF_SEED", "0"))
    mod = importlib.import_module(f"props.{a.prop.lower()}")
    # a replay must not delete the replay files of an earlier run (Ctx clears replays/<prop>_<tier>_*)
    ctx = common.Ctx(a.prop.upper(), "replay" if a.replay else a.tier, seed,
                     level=getattr(mod, "LEVEL", "proof"))
    try:
        if a.replay:
            mod.replay(ctx, a.replay)
        else:
            mod.run(ctx)
    except Exception:
        tb = traceback.format_exc()
        print(tb)
        ctx.obligation("check-machinery-ran", False, tb, kind="harness")
        ctx.violation(
            "the check itself crashed; the property is not shown to hold",
            {"traceback": tb, "broken": "harness"},
            found_input=False,
        )
    return ctx.finish()


if __name__ == "__main__":
    sys.exit(main())
