"""Single entry point of the verification machinery (see DESIGN.md §1)."""
import argparse
import importlib
import os
import sys
import traceback

sys.path.insert(0, os.path.dirname(__file__))
from vlib import common  # noqa: E402


def prop_modules():
    d = os.path.join(os.path.dirname(__file__), "props")
    return sorted(f[:-3] for f in os.listdir(d) if f.startswith("c") and f.endswith(".py"))


def regen_all() -> int:
    rc = 0
    for m in prop_modules():
        mod = importlib.import_module(f"props.{m}")
        if hasattr(mod, "gen"):
            try:
                for path, text in mod.gen():
                    common.write_if_changed(path, text)
            except Exception as ex:  # translator failed: leave a stub so the build reports it
                print(f"[regen] {m}: {ex}")
                rc = 1
    return rc


def main() -> int:
    ap = argparse.ArgumentParser()
    ap.add_argument("prop", nargs="?")
    ap.add_argument("--tier", default=os.environ.get("VERIF_TIER", "quick"))
    ap.add_argument("--replay")
    ap.add_argument("--regen", action="store_true")
    ap.add_argument("--setup", action="store_true")
    a = ap.parse_args()
    if a.regen or a.setup:
        rc = regen_all()
        if a.setup:
            bad = common.forbidden_scan()
            if bad:
                print("forbidden tokens:\n" + "\n".join(bad))
                return 1
            rc2, out = common.coq_make([], timeout=3400, jobs=16)
            print(out[-4000:])
            return rc or rc2
        return rc
    if not a.prop:
        ap.error("property id required")
    seed = int(os.environ.get("VERIF_SEED", "0"))
    mod = importlib.import_module(f"props.{a.prop.lower()}")
    # a replay must not delete the replay files of an earlier run (Ctx clears replays/<prop>_<tier>_*)
    ctx = common.Ctx(a.prop.upper(), "replay" if a.replay else a.tier, seed,
                     level=getattr(mod, "LEVEL", "proof"))
    try:
        if a.replay:
            mod.replay(ctx, a.replay)
        else:
            mod.run(ctx)
    except Exception:
        tb = traceback.format_exc()
        print(tb)
        ctx.obligation("check-machinery-ran", False, tb, kind="harness")
        ctx.violation(
            "the check itself crashed; the property is not shown to hold",
            {"traceback": tb, "broken": "harness"},
            found_input=False,
        )
    return ctx.finish()


if __name__ == "__main__":
    sys.exit(main())
