"""Fail-closed translator from a small scalar subset of Python ("PyLite") to Gallina.

The generated code is parametric in an `Arith A` record (coq/Base/Arith.v) so that the same
term is executed at binary64 (bit-exact correspondence with the Python code) and reasoned
about at R.  Any AST node outside the supported subset raises `Unsupported`: the caller then
treats the proof obligation as broken (never silently skipped).

Supported: classes whose methods assign to locals / `self.x`, `if/else`, `assert`,
`return`, arithmetic, comparisons, boolean operators, `abs`, tuple (swap) assignment,
`None`/`is not None` on declared optional fields.
"""
from __future__ import annotations

import ast
from dataclasses import dataclass, field
from typing import Callable, Dict, List, Optional, Tuple


class Unsupported(Exception):
    pass


# types: 'F' scalar, 'B' bool, 'OF' option scalar
COQ_TY = {"F": "A", "B": "bool", "OF": "option A"}
COQ_KEYWORDS = {"end", "in", "at", "as", "let", "fun", "match", "with", "if", "then", "else",
                "fix", "return", "using", "where", "forall", "exists", "Type", "Set", "Prop",
                "st", "ar", "A"}


def _fail(node, why=""):
    raise Unsupported(
        f"line {getattr(node, 'lineno', '?')}: unsupported {type(node).__name__} {why}: "
        f"{ast.unparse(node)[:80] if isinstance(node, ast.AST) else node}"
    )


@dataclass
class Env:
    types: Dict[str, str]  # python-visible name -> type
    coq: Dict[str, str]  # python-visible name -> current coq identifier
    counter: Dict[str, int] = field(default_factory=dict)

    def copy(self):
        return Env(dict(self.types), dict(self.coq), self.counter)

    def fresh(self, name: str) -> str:
        base = name.replace(".", "_")
        if base in COQ_KEYWORDS:
            base = base + "_"
        n = self.counter.get(base, 0)
        self.counter[base] = n + 1
        return base if n == 0 else f"{base}_{n}"


class ExprTr:
    def __init__(self, env: Env):
        self.env = env
        self.guards: List[str] = []  # divisors that must be non-zero (Python raises otherwise)
        self.in_shortcircuit = 0

    def key(self, node) -> Optional[str]:
        if isinstance(node, ast.Name):
            return node.id
        if (
            isinstance(node, ast.Attribute)
            and isinstance(node.value, ast.Name)
            and node.value.id == "self"
        ):
            return "self." + node.attr
        return None

    def tr(self, node, want: Optional[str] = None) -> Tuple[str, str]:
        """returns (coq_text, type)"""
        k = self.key(node)
        if k is not None:
            if k not in self.env.coq:
                _fail(node, "(unbound name)")
            return self.env.coq[k], self.env.types[k]
        if isinstance(node, ast.Constant):
            v = node.value
            if v is True:
                return "true", "B"
            if v is False:
                return "false", "B"
            if v is None:
                return "None", "OF"
            if isinstance(v, int):
                return f"(a_ofZ ar ({v})%Z)", "F"
            _fail(node, "(non-integer literal)")
        if isinstance(node, ast.UnaryOp):
            if isinstance(node.op, ast.USub):
                t, ty = self.tr(node.operand)
                self._want(node, ty, "F")
                return f"(a_neg ar {t})", "F"
            if isinstance(node.op, ast.Not):
                t, ty = self.tr(node.operand)
                self._want(node, ty, "B")
                return f"(negb {t})", "B"
            _fail(node)
        if isinstance(node, ast.BinOp):
            ops = {ast.Add: "a_add", ast.Sub: "a_sub", ast.Mult: "a_mul", ast.Div: "a_div"}
            if type(node.op) not in ops:
                _fail(node)
            l, tl = self.tr(node.left)
            r, tr_ = self.tr(node.right)
            self._want(node, tl, "F")
            self._want(node, tr_, "F")
            if isinstance(node.op, ast.Div):
                rc = node.right
                if not (isinstance(rc, ast.Constant) and isinstance(rc.value, int) and rc.value != 0):
                    if self.in_shortcircuit:
                        _fail(node, "(division by a non-constant inside and/or)")
                    self.guards.append(r)
            return f"({ops[type(node.op)]} ar {l} {r})", "F"
        if isinstance(node, ast.Compare):
            if len(node.ops) != 1:
                _fail(node, "(chained comparison)")
            op = node.ops[0]
            left, right = node.left, node.comparators[0]
            if isinstance(op, (ast.IsNot, ast.Is)):
                if not (isinstance(right, ast.Constant) and right.value is None):
                    _fail(node)
                l, tl = self.tr(left)
                self._want(node, tl, "OF")
                some = "true" if isinstance(op, ast.IsNot) else "false"
                none = "false" if isinstance(op, ast.IsNot) else "true"
                return f"(match {l} with Some _ => {some} | None => {none} end)", "B"
            l, tl = self.tr(left)
            r, tr_ = self.tr(right)
            if tl == "OF" and tr_ == "F" and isinstance(op, ast.Eq):
                # `x == self.opt` : equal iff opt is Some y and x == y
                return f"(match {l} with Some o_ => a_eqb ar o_ {r} | None => false end)", "B"
            if tl == "F" and tr_ == "OF" and isinstance(op, ast.Eq):
                return f"(match {r} with Some o_ => a_eqb ar {l} o_ | None => false end)", "B"
            self._want(node, tl, "F")
            self._want(node, tr_, "F")
            if isinstance(op, ast.Lt):
                return f"(a_ltb ar {l} {r})", "B"
            if isinstance(op, ast.LtE):
                return f"(a_leb ar {l} {r})", "B"
            if isinstance(op, ast.Gt):
                return f"(a_ltb ar {r} {l})", "B"
            if isinstance(op, ast.GtE):
                return f"(a_leb ar {r} {l})", "B"
            if isinstance(op, ast.Eq):
                return f"(a_eqb ar {l} {r})", "B"
            _fail(node)
        if isinstance(node, ast.BoolOp):
            parts = []
            for i, v in enumerate(node.values):
                if i > 0:
                    self.in_shortcircuit += 1
                t, ty = self.tr(v)
                if i > 0:
                    self.in_shortcircuit -= 1
                self._want(node, ty, "B")
                parts.append(t)
            opn = "andb" if isinstance(node.op, ast.And) else "orb"
            out = parts[-1]
            for p in reversed(parts[:-1]):
                out = f"({opn} {p} {out})"
            return out, "B"
        if isinstance(node, ast.Call):
            if isinstance(node.func, ast.Name) and node.func.id == "abs" and len(node.args) == 1:
                t, ty = self.tr(node.args[0])
                self._want(node, ty, "F")
                return f"(a_abs ar {t})", "F"
            _fail(node, "(call)")
        _fail(node)

    @staticmethod
    def _want(node, got, want):
        if got != want:
            _fail(node, f"(type {got}, wanted {want})")


def _assigned(stmts) -> List[str]:
    out: List[str] = []

    def add(t):
        if isinstance(t, ast.Name):
            k = t.id
        elif (
            isinstance(t, ast.Attribute) and isinstance(t.value, ast.Name) and t.value.id == "self"
        ):
            k = "self." + t.attr
        elif isinstance(t, ast.Tuple):
            for e in t.elts:
                add(e)
            return
        else:
            _fail(t, "(assignment target)")
        if k not in out:
            out.append(k)

    for s in stmts:
        if isinstance(s, ast.Assign):
            for t in s.targets:
                add(t)
        elif isinstance(s, ast.AnnAssign):
            add(s.target)
        elif isinstance(s, ast.If):
            for k in _assigned(s.body) + _assigned(s.orelse):
                if k not in out:
                    out.append(k)
        elif isinstance(s, (ast.Assert, ast.Return, ast.Expr, ast.Pass)):
            pass
        else:
            _fail(s, "(statement)")
    return out


def _guarded(et: "ExprTr", node, indent: str, body: str) -> str:
    """Python raises ZeroDivisionError on float division by (+/-)0: make it an explicit Err."""
    if not et.guards:
        return body
    conds = [f"(a_eqb ar {g} (a_ofZ ar 0%Z))" for g in et.guards]
    c = conds[-1]
    for x in reversed(conds[:-1]):
        c = f"(orb {x} {c})"
    return f"{indent}if {c} then Err ({10000 + node.lineno})%Z else\n{body}"


_UNUSED = {"end", "in", "at", "as", "let", "fun", "match", "with", "if", "then", "else",
                "fix", "return", "using", "where", "forall", "exists", "Type", "Set", "Prop", "s", "ar", "A"}


class FnTr:
    """Translate a statement list in continuation-passing style."""

    def __init__(self):
        self.assert_ids: List[Tuple[int, int]] = []  # (lineno, lineno)

    def block(self, stmts, env: Env, k: Callable[[Env], str], indent: str) -> str:
        if not stmts:
            return k(env)
        s, rest = stmts[0], stmts[1:]
        cont = lambda e: self.block(rest, e, k, indent)  # noqa: E731
        if isinstance(s, ast.Expr):
            if isinstance(s.value, ast.Constant) and isinstance(s.value.value, str):
                return cont(env)
            _fail(s, "(expression statement)")
        if isinstance(s, ast.Pass):
            return cont(env)
        if isinstance(s, ast.AnnAssign):
            if s.value is None:
                _fail(s)
            return self._assign(s, s.target, s.value, env, cont, indent)
        if isinstance(s, ast.Assign):
            if len(s.targets) != 1:
                _fail(s, "(chained assignment)")
            return self._assign(s, s.targets[0], s.value, env, cont, indent)
        if isinstance(s, ast.Assert):
            et = ExprTr(env)
            t, ty = et.tr(s.test)
            ExprTr._want(s, ty, "B")
            self.assert_ids.append((s.lineno, s.lineno))
            return _guarded(
                et, s, indent, f"{indent}(if {t} then\n{cont(env)}\n{indent}else Err ({s.lineno})%Z)"
            )
        if isinstance(s, ast.If) and not s.orelse and s.body and isinstance(s.body[-1], ast.Return):
            # early return: `if c: ...; return v` followed by the rest of the function
            for sub in ast.walk(s):
                if sub is not s and sub is not s.body[-1] and isinstance(sub, (ast.Return, ast.Assert)):
                    _fail(s, "(nested return/assert inside early-return if)")
            etc = ExprTr(env)
            c, ty = etc.tr(s.test)
            ExprTr._want(s, ty, "B")
            then = self.block(s.body, env.copy(), k, indent + "  ")
            return _guarded(
                etc, s, indent, f"{indent}(if {c} then\n{then}\n{indent}else\n{cont(env)})"
            )
        if isinstance(s, ast.If):
            for sub in ast.walk(s):
                if sub is not s and isinstance(sub, (ast.Return, ast.Assert)):
                    _fail(s, "(return/assert inside if)")
            both = [v for v in _assigned(s.body) if v in _assigned(s.orelse)]
            # variables assigned in one branch only and unbound before are branch-local
            vs = [v for v in _assigned([s]) if v in env.coq or v in both]
            if not vs:
                _fail(s, "(if without effect)")
            etc = ExprTr(env)
            c, ty = etc.tr(s.test)
            ExprTr._want(s, ty, "B")
            branches = []
            tys: Dict[str, str] = {}
            for body in (s.body, s.orelse):
                e2 = env.copy()

                def fin(e, vs=vs):
                    for v in vs:
                        if tys.setdefault(v, e.types[v]) != e.types[v]:
                            raise Unsupported(f"line {s.lineno}: `{v}` has two types")
                    return indent + "    Ok (" + ", ".join(e.coq[v] for v in vs) + ")"

                branches.append(self.block(body, e2, fin, indent + "    "))
            new = env.copy()
            names = []
            for v in vs:
                n = new.fresh(v)
                new.coq[v] = n
                new.types[v] = tys[v]
                names.append(n)
            pat = names[0] if len(names) == 1 else "'(" + ", ".join(names) + ")"
            if any("Err " in b for b in branches):
                body = (
                    f"{indent}res_bind (\n{indent}  if {c} then\n{branches[0]}\n"
                    f"{indent}  else\n{branches[1]}) (fun {pat} =>\n{cont(new)})"
                )
            else:
                # no failure possible inside the branches: plain let (strip the Ok wrappers)
                b0, b1 = (self._strip_ok(b, indent) for b in branches)
                body = (
                    f"{indent}let {pat} :=\n{indent}  if {c} then\n{b0}\n"
                    f"{indent}  else\n{b1} in\n{cont(new)}"
                )
            return _guarded(etc, s, indent, body)
        if isinstance(s, ast.Return):
            if rest:
                _fail(s, "(code after return)")
            env2 = env.copy()
            et = ExprTr(env)
            env2.coq["$ret"], env2.types["$ret"] = (
                et.tr(s.value) if s.value is not None else ("tt", "U")
            )
            return _guarded(et, s, indent, k(env2))
        _fail(s, "(statement)")

    @staticmethod
    def _strip_ok(b: str, indent: str) -> str:
        lines = b.split("\n")
        last = lines[-1]
        marker = indent + "    Ok ("
        assert last.startswith(marker), last
        lines[-1] = indent + "    (" + last[len(marker):]
        return "\n".join(lines)

    def _assign(self, stmt, tgt, value, env: Env, cont, indent) -> str:
        et = ExprTr(env)
        if isinstance(tgt, ast.Tuple):
            if not isinstance(value, ast.Tuple) or len(value.elts) != len(tgt.elts):
                _fail(tgt, "(tuple assignment shape)")
            vals = [et.tr(v) for v in value.elts]
            new = env.copy()
            lets = []
            tmp = []
            # simultaneous assignment: evaluate all right-hand sides first
            for (t, ty), target in zip(vals, tgt.elts):
                k = et.key(target)
                if k is None:
                    _fail(target, "(assignment target)")
                n = new.fresh(k)
                tmp.append((k, n, ty))
                lets.append(f"{indent}let {n} := {t} in")
            for k, n, ty in tmp:
                self._check_type(tgt, env, k, ty)
                new.coq[k] = n
                new.types[k] = ty
            return _guarded(et, stmt, indent, "\n".join(lets) + "\n" + cont(new))
        k = et.key(tgt)
        if k is None:
            _fail(tgt, "(assignment target)")
        t, vty = et.tr(value)
        ty = self._check_type(tgt, env, k, vty)
        if ty == "OF" and vty == "F":
            t = f"(Some {t})"
        new = env.copy()
        n = new.fresh(k)
        new.coq[k] = n
        new.types[k] = ty
        return _guarded(et, stmt, indent, f"{indent}let {n} := {t} in\n{cont(new)}")

    @staticmethod
    def _check_type(node, env, k, ty):
        if k in env.types and env.types[k] != ty:
            if env.types[k] == "OF" and ty == "F":
                return "OF"
            _fail(node, f"(`{k}` changes type {env.types[k]} -> {ty})")
        return ty


def translate_class(
    src: str,
    cls_name: str,
    fields: Dict[str, str],
    methods: Dict[str, dict],
    module_name: str,
) -> str:
    """fields: name -> type (order = record order).
    methods: name -> {"params": {name: type}, "ret": type or None, "kwonly_init": bool}
    Every method of the class must be listed (fail closed on unknown methods)."""
    tree = ast.parse(src)
    cls = None
    for n in tree.body:
        if isinstance(n, ast.ClassDef) and n.name == cls_name:
            cls = n
    if cls is None:
        raise Unsupported(f"class {cls_name} not found")
    out = [
        f"(* GENERATED by tools/vlib/pylite.py from class {cls_name}; do not edit. *)",
        "From Coq Require Import ZArith Bool.",
        "From EV Require Import Base.Arith.",
        "Set Implicit Arguments.",
        f"Section {module_name}.",
        "Variable A : Type.",
        "Variable ar : Arith A.",
        "",
        "Record st := MkSt {",
    ]
    out += [f"  f_{n} : {COQ_TY[t]};" for n, t in fields.items()]
    out += ["}.", ""]
    seen = set()
    asserts_doc = []
    for fn in cls.body:
        if isinstance(fn, ast.Expr) and isinstance(fn.value, ast.Constant):
            continue
        if not isinstance(fn, ast.FunctionDef):
            _fail(fn, "(class member)")
        if fn.name not in methods:
            raise Unsupported(f"method {fn.name} of {cls_name} is not declared to the translator")
        seen.add(fn.name)
        spec = methods[fn.name]
        a = fn.args
        if a.vararg or a.kwarg or a.posonlyargs:
            _fail(fn, "(signature)")
        pnames = [x.arg for x in a.args[1:]] + [x.arg for x in a.kwonlyargs]
        if pnames != list(spec["params"].keys()):
            raise Unsupported(f"{fn.name}: parameters {pnames} != declared {list(spec['params'])}")
        is_init = fn.name == "__init__"
        env = Env({}, {})
        for p, ty in spec["params"].items():
            env.types[p] = ty
            env.coq[p] = env.fresh(p)
        if not is_init:
            for f_, ty in fields.items():
                env.types["self." + f_] = ty
                env.coq["self." + f_] = env.fresh("self_" + f_)
        tr = FnTr()
        ret_ty = spec.get("ret")

        def fin(e, is_init=is_init, ret_ty=ret_ty, fn=fn):
            for f_ in fields:
                if "self." + f_ not in e.coq:
                    raise Unsupported(f"{fn.name}: field {f_} never assigned")
                if e.types["self." + f_] != fields[f_]:
                    raise Unsupported(f"{fn.name}: field {f_} has type {e.types['self.'+f_]}")
            rec = "MkSt " + " ".join(e.coq["self." + f_] for f_ in fields)
            if ret_ty is None:
                if "$ret" in e.coq and e.coq["$ret"] != "tt":
                    raise Unsupported(f"{fn.name}: unexpected return value")
                return f"  Ok ({rec})"
            if "$ret" not in e.coq or e.types["$ret"] != ret_ty:
                raise Unsupported(f"{fn.name}: return type mismatch")
            return f"  Ok ({rec}, {e.coq['$ret']})"

        body = tr.block(fn.body, env, fin, "  ")
        cname = "init" if is_init else fn.name
        params = " ".join(f"({env.coq[p]} : {COQ_TY[t]})" for p, t in spec["params"].items())
        selfp = "" if is_init else "(self_ : st) "
        rty = "res st" if ret_ty is None else f"res (st * {COQ_TY[ret_ty]})"
        out.append(f"Definition {cname} {selfp}{params} : {rty} :=")
        if not is_init:
            for f_ in fields:
                out.append(f"  let self_{f_} := f_{f_} self_ in")
        out.append(body + ".")
        out.append("")
        for aid, ln in tr.assert_ids:
            asserts_doc.append(f"(* {cname}: Err {aid} = assert at source line {ln} *)")
        asserts_doc.append(f"(* {cname}: Err (10000+n) = ZeroDivisionError at source line n *)")
    missing = set(methods) - seen
    if missing:
        raise Unsupported(f"declared methods not found: {missing}")
    out += asserts_doc
    out += [f"End {module_name}.", ""]
    return "\n".join(out)
