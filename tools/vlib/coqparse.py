"""Parse values printed by Coq (`Eval vm_compute`) into Python objects.

Supports: lists `[a; b]`, tuples `(a, b, c)`, numbers (Z / nat / N / PrimFloat, with optional
`%Z`-style scope suffix), `true/false`, `Some x`/`None`, `tt`, strings, float specials, and
constructor applications `C a b` (returned as ("C", a, b)); bare constructors are returned as str.
"""
from __future__ import annotations

import re
from typing import Any, List

_TOK = re.compile(
    r"""\s*(?:
    (?P<str>"(?:[^"]|"")*")
  | (?P<num>-?(?:0x[0-9a-fA-F.]+p[+-]?\d+|\d+\.?\d*(?:[eE][+-]?\d+)?))
  | (?P<id>[A-Za-z_][A-Za-z0-9_.']*)
  | (?P<scope>%[A-Za-z_]+)
  | (?P<p>[\[\]();,])
  )""",
    re.X,
)


def _tokens(s: str) -> List[tuple]:
    out = []
    i = 0
    s = s.strip()
    while i < len(s):
        m = _TOK.match(s, i)
        if not m or m.end() == i:
            raise ValueError(f"cannot tokenize at {s[i:i+40]!r}")
        i = m.end()
        k = m.lastgroup
        if k == "scope":
            continue
        out.append((k, m.group(k)))
    return out


class _P:
    def __init__(self, toks):
        self.t = toks
        self.i = 0

    def peek(self):
        return self.t[self.i] if self.i < len(self.t) else (None, None)

    def eat(self):
        x = self.t[self.i]
        self.i += 1
        return x

    def atom(self) -> Any:
        k, v = self.eat()
        if k == "num":
            if v.startswith(("0x", "-0x")):
                return float.fromhex(v)
            if re.fullmatch(r"-?\d+", v):
                return int(v)
            return float(v)
        if k == "str":
            return v[1:-1].replace('""', '"')
        if k == "id":
            return {
                "true": True, "false": False, "None": None, "tt": (),
                "infinity": float("inf"), "neg_infinity": float("-inf"), "nan": float("nan"),
            }.get(v, _Id(v))
        if k == "p" and v == "[":
            items = []
            if self.peek() == ("p", "]"):
                self.eat()
                return items
            while True:
                items.append(self.expr())
                k2, v2 = self.eat()
                if v2 == "]":
                    return items
                if v2 != ";":
                    raise ValueError("expected ; or ]")
        if k == "p" and v == "(":
            items = [self.expr()]
            while True:
                k2, v2 = self.eat()
                if v2 == ")":
                    return items[0] if len(items) == 1 else tuple(items)
                if v2 != ",":
                    raise ValueError("expected , or )")
                items.append(self.expr())
        raise ValueError(f"unexpected token {v!r}")

    def expr(self) -> Any:
        head = self.atom()
        if isinstance(head, _Id):
            args = []
            while True:
                k, v = self.peek()
                if k is None or (k == "p" and v in "];,)"):
                    break
                args.append(self.atom())
            if head.name == "Some" and len(args) == 1:
                return ("Some", args[0])
            if not args:
                return head.name
            return (head.name, *args)
        return head


class _Id:
    def __init__(self, name):
        self.name = name


def parse(s: str) -> Any:
    # PrimFloat negative numbers may be printed as (-1.5)%float or -1.5
    p = _P(_tokens(s))
    v = p.expr()
    if p.i != len(p.t):
        raise ValueError(f"trailing tokens in {s[:80]!r}")
    return v


def bits(x: float) -> str:
    """canonical bit-exact rendering of a float (nan collapsed)"""
    import math

    if isinstance(x, int):
        x = float(x)
    return "nan" if math.isnan(x) else x.hex()
