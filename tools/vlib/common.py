"""Shared machinery of the checks: Coq build, vm_compute evaluation, evidence, verdicts."""
from __future__ import annotations

import fcntl
import hashlib
import json
import os
import random
import re
import subprocess
import sys
import time
from pathlib import Path
from typing import Any, Callable, Dict, List, Optional, Sequence

VERIF = Path(__file__).resolve().parents[2]
REPO = Path(os.environ.get("VERIF_REPO", "/repo"))
COQ = VERIF / "coq"
BUILD = VERIF / "build"
if REPO.resolve() != Path("/repo"):
    # A modified copy of the repository (mutation trials, seeded changes) gets its own copy of the Coq tree: the files
    # under Gen/ are regenerated from the copy and must not leak into concurrent runs against /repo (and vice versa).
    import hashlib as _hashlib

    _alt = BUILD / "alt" / _hashlib.sha1(str(REPO.resolve()).encode()).hexdigest()[:10] / "coq"
    _alt.parent.mkdir(parents=True, exist_ok=True)
    subprocess.run(["rsync", "-a", "--delete", "--exclude", "Gen/", "--exclude", ".lia.cache", "--exclude", ".nra.cache",
                    str(COQ) + "/", str(_alt) + "/"], check=True)
    if not (_alt / "Gen").exists():
        subprocess.run(["rsync", "-a", str(COQ / "Gen") + "/", str(_alt / "Gen") + "/"], check=True)
    COQ = _alt
PY = "/venv/bin/python"

FORBIDDEN = re.compile(
    r"\b(Admitted|admit|Axiom|Axioms|Parameter|Parameters|Conjecture|Conjectures|Hypothesis|Hypotheses|Variable|Variables)\b"
    r"|Unset\s+Guard|Guard\s+Checking|bypass_check|type-in-type|impredicative-set|Admit\s+Obligations"
    r"|native_compute|Unset\s+Universe\s+Checking|Unset\s+Positivity"
)

# Axioms that may legitimately appear under Print Assumptions (all declared by Coq's stdlib).
ALLOWED_AXIOMS = {
    "ClassicalDedekindReals.sig_forall_dec",
    "ClassicalDedekindReals.sig_not_dec",
    "FunctionalExtensionality.functional_extensionality_dep",
    "Classical_Prop.classic",
    "Eqdep.Eq_rect_eq.eq_rect_eq",
    "ProofIrrelevance.proof_irrelevance",
    "JMeq.JMeq_eq",
}
# primitives printed by Print Assumptions that are not axioms
PRIMITIVE_PREFIXES = ("PrimFloat.", "Uint63.", "PrimInt63.", "FloatAxioms.", "Sint63.", "PrimArray.")


def env_for_impl() -> Dict[str, str]:
    e = dict(os.environ)
    e["PYTHONPATH"] = str(REPO) + os.pathsep + str(VERIF / "tools")
    e["PYTHONHASHSEED"] = "0"
    e["PASQAL_IO_EMULATORS_VERIF"] = "1"
    e.setdefault("OMP_NUM_THREADS", "1")
    e.setdefault("MKL_NUM_THREADS", "1")
    return e


def sh(cmd: Sequence[str] | str, timeout: int = 600, cwd: Optional[Path] = None, env=None):
    """Run a command under a hard timeout; returns (rc, stdout+stderr)."""
    try:
        p = subprocess.run(
            cmd,
            shell=isinstance(cmd, str),
            cwd=str(cwd) if cwd else None,
            env=env,
            stdout=subprocess.PIPE,
            stderr=subprocess.STDOUT,
            timeout=timeout,
            text=True,
            errors="replace",
        )
        return p.returncode, p.stdout
    except subprocess.TimeoutExpired as ex:
        out = ex.stdout or ""
        if isinstance(out, bytes):
            out = out.decode(errors="replace")
        return 124, out + f"\n[timeout after {timeout}s]"


class BuildLock:
    def __enter__(self):
        BUILD.mkdir(exist_ok=True)
        self.f = open(COQ.parent / ".lock" if COQ.parent != VERIF else BUILD / ".lock", "w")
        fcntl.flock(self.f, fcntl.LOCK_EX)
        return self

    def __exit__(self, *a):
        fcntl.flock(self.f, fcntl.LOCK_UN)
        self.f.close()


def write_if_changed(path: Path, text: str) -> bool:
    path.parent.mkdir(parents=True, exist_ok=True)
    if path.exists() and path.read_text() == text:
        return False
    path.write_text(text)
    return True


def coq_sources() -> List[Path]:
    out = []
    for d in ("Base", "Gen", "Model", "Proofs", "Properties"):
        out += sorted((COQ / d).glob("*.v"))
    return out


def mkproject() -> None:
    lines = ["-Q . EV", "-arg -w", "-arg -notation-overridden,-deprecated,-undeclared-scope"]
    lines += [str(p.relative_to(COQ)) for p in coq_sources()]
    changed = write_if_changed(COQ / "_CoqProject", "\n".join(lines) + "\n")
    if changed or not (COQ / "Makefile.coq").exists():
        rc, out = sh(["coq_makefile", "-f", "_CoqProject", "-o", "Makefile.coq"], cwd=COQ, timeout=120)
        if rc != 0:
            raise RuntimeError("coq_makefile failed:\n" + out)


def forbidden_scan() -> List[str]:
    """Section `Variable`/`Hypothesis` are allowed only inside a Section (checked textually)."""
    bad = []
    for p in coq_sources():
        depth = 0
        text = re.sub(r"\(\*.*?\*\)", "", p.read_text(), flags=re.S)
        for ln, line in enumerate(text.splitlines(), 1):
            if re.match(r"\s*Section\s", line):
                depth += 1
            m = FORBIDDEN.search(line)
            if m:
                tok = m.group(0)
                if tok in ("Variable", "Hypothesis", "Variables", "Hypotheses") and depth > 0:
                    pass
                else:
                    bad.append(f"{p.relative_to(COQ)}:{ln}: {line.strip()[:100]}")
            if re.match(r"\s*End\s", line) and depth > 0:
                depth -= 1
    return bad


def coq_make(targets: Sequence[str], timeout: int = 1500, jobs: int = 8):
    """Full .vo build of the given targets (relative to coq/), under the build lock."""
    with BuildLock():
        mkproject()
        rc, out = sh(
            ["make", "-f", "Makefile.coq", f"-j{jobs}", *targets], cwd=COQ, timeout=timeout
        )
    return rc, out


def coqc_file(path: Path, timeout: int = 600):
    return sh(
        ["coqc", "-Q", str(COQ), "EV", "-w", "-notation-overridden,-deprecated", str(path)],
        timeout=timeout,
        cwd=path.parent,
    )


def theorems_in(vfile: Path) -> List[str]:
    if not vfile.exists():
        return []
    text = re.sub(r"\(\*.*?\*\)", "", vfile.read_text(), flags=re.S)
    return re.findall(r"^\s*(?:Theorem|Corollary)\s+([A-Za-z0-9_']+)", text, flags=re.M)


def print_assumptions(module: str, names: Sequence[str], tag: str, timeout: int = 600):
    """Compile a scratch file that prints the assumptions of each theorem.
    Returns (ok, {theorem: [axioms]}, log)."""
    d = BUILD / "assum"
    d.mkdir(parents=True, exist_ok=True)
    f = d / f"A_{tag}_p{os.getpid()}.v"
    body = [f"From EV Require Import {module}.", 'Set Printing Width 100000.']
    for n in names:
        body.append(f'Goal True. idtac "@@BEGIN {n}". Abort.')
        body.append(f"Print Assumptions {n}.")
        body.append(f'Goal True. idtac "@@END {n}". Abort.')
    f.write_text("\n".join(body) + "\n")
    rc, out = coqc_file(f, timeout)
    res: Dict[str, List[str]] = {}
    if rc != 0:
        return False, res, out
    for n in names:
        m = re.search(rf"@@BEGIN {re.escape(n)}\n(.*?)@@END {re.escape(n)}", out, flags=re.S)
        if not m:
            return False, res, out
        block = m.group(1)
        if "Closed under the global context" in block:
            res[n] = []
        else:
            axs = []
            for line in block.splitlines():
                mm = re.match(r"^([A-Za-z_][A-Za-z0-9_.']*)\s*:", line)
                if mm and mm.group(1) != "Axioms":
                    axs.append(mm.group(1))
            res[n] = axs
    return True, res, out


def float_lit(x: float) -> str:
    """Exact Coq PrimFloat literal of a Python float."""
    import math

    if math.isnan(x):
        return "nan"
    if math.isinf(x):
        return "infinity" if x > 0 else "neg_infinity"
    h = x.hex()
    if h.startswith("-"):
        return f"({h})"
    return h


class CoqEval:
    """Evaluate Gallina expressions with vm_compute in one coqc call; one result per expression."""

    def __init__(self, tag: str, header: str):
        self.tag = tag
        self.header = header
        self.exprs: List[str] = []

    def add(self, expr: str) -> int:
        self.exprs.append(expr)
        return len(self.exprs) - 1

    def run(self, timeout: int = 900, shard: int = 400, jobs: int = 8) -> List[str]:
        d = BUILD / "cases"
        d.mkdir(parents=True, exist_ok=True)
        files = []
        for si in range(0, len(self.exprs), shard):
            f = d / f"{self.tag}_p{os.getpid()}_{si // shard}.v"
            lines = [self.header, "Set Printing Width 1000000.", "Set Printing Depth 1000000."]
            for i, e in enumerate(self.exprs[si : si + shard]):
                lines.append(f'Goal True. idtac "@@R {si + i}". Abort.')
                lines.append(f"Eval vm_compute in ({e}).")
            lines.append('Goal True. idtac "@@DONE". Abort.')
            f.write_text("\n".join(lines) + "\n")
            files.append(f)
        from concurrent.futures import ThreadPoolExecutor

        with ThreadPoolExecutor(max_workers=jobs) as ex:
            outs = list(ex.map(lambda f: coqc_file(f, timeout), files))
        results: Dict[int, str] = {}
        for f, (rc, out) in zip(files, outs):
            if rc != 0 or "@@DONE" not in out:
                raise CoqEvalError(f"coqc failed on {f}:\n{out[-3000:]}")
            for m in re.finditer(r"@@R (\d+)\n\s*= (.*?)\n\s*: [^\n]*(?=\n@@)", out, flags=re.S):
                results[int(m.group(1))] = " ".join(m.group(2).split())
        if len(results) != len(self.exprs):
            raise CoqEvalError(f"parsed {len(results)} of {len(self.exprs)} results")
        for f in files:  # successful shards are not kept (they are regenerated on every run)
            for ext in (".v", ".vo", ".vok", ".vos", ".glob"):
                try:
                    f.with_suffix(ext).unlink()
                except OSError:
                    pass
            try:
                (f.parent / ("." + f.stem + ".aux")).unlink()
            except OSError:
                pass
        return [results[i] for i in range(len(self.exprs))]


class CoqEvalError(Exception):
    pass


# --------------------------------------------------------------------------------------
class Ctx:
    """Per-run context: collects obligations, correspondence counts, findings, evidence."""

    def __init__(self, prop: str, tier: str, seed: int, level: str = "proof"):
        self.prop = prop
        self.tier = tier
        self.seed = seed
        self.level = level
        self.rng = random.Random(f"{prop}-{seed}")
        self.t0 = time.time()
        self.obligations: List[Dict[str, Any]] = []
        self.evaluations = 0
        self.case_hashes: set = set()
        self.samples: List[Any] = []
        self.rule = ""
        self.trusted_base: List[str] = []
        self.assumptions: List[str] = []
        self.extra: Dict[str, Any] = {}
        self.violations: List[Dict[str, Any]] = []
        self.known_lines: List[str] = []
        self.notes: List[str] = []
        self.checker_cmd = ""
        for old in (VERIF / "replays").glob(f"{prop}_{tier}_*.json"):
            old.unlink()
        kf = VERIF / "known_findings.json"
        self.known = json.loads(kf.read_text()) if kf.exists() else {"findings": []}

    # -- bookkeeping ---------------------------------------------------------------
    def thorough(self) -> bool:
        return self.tier == "thorough"

    def n(self, quick: int, thorough: int) -> int:
        return thorough if self.thorough() else quick

    def obligation(self, name: str, ok: bool, detail: str = "", kind: str = "theorem"):
        self.obligations.append({"name": name, "ok": bool(ok), "kind": kind, "detail": detail[-1500:]})
        return ok

    def count_case(self, case: Any, nontrivial: bool = True):
        self.evaluations += 1
        if nontrivial:
            h = hashlib.sha1(json.dumps(case, sort_keys=True, default=str).encode()).hexdigest()
            self.case_hashes.add(h)
        if len(self.samples) < 6 and nontrivial:
            self.samples.append(case)

    def log(self, msg: str):
        print(f"[{self.prop}] {msg}", flush=True)

    # -- verdicts ------------------------------------------------------------------
    def violation(self, what: str, replay: Dict[str, Any], found_input: bool = True):
        """Report a violation unless it is listed (by finding key) as an open known finding."""
        key = replay.get("finding_key")
        for kf in self.known.get("findings", []):
            if kf.get("property") == self.prop and kf.get("status") == "open" and key and kf.get("key") == key:
                line = f"KNOWN-FINDING: property={self.prop} {kf.get('what_fails', what)}"
                if line not in self.known_lines:
                    self.known_lines.append(line)
                return
        if key and sum(1 for v in self.violations if v.get("key") == key) >= 3:
            self.suppressed_duplicates = getattr(self, "suppressed_duplicates", 0) + 1
            return  # same kind of failure already reported three times in this run
        idx = len(self.violations)
        rp = VERIF / "replays" / f"{self.prop}_{self.tier}_{idx}.json"
        rp.parent.mkdir(exist_ok=True)
        replay = dict(replay)
        replay.update({"property": self.prop, "what": what, "found_failing_input": found_input})
        rp.write_text(json.dumps(replay, indent=1, default=str))
        self.violations.append({"what": what, "replay": str(rp), "found_input": found_input, "key": key})

    def finish(self) -> int:
        broken = [o["name"] for o in self.obligations if not o["ok"]]
        if broken and not self.violations:
            # a proof obligation / correspondence no longer checks and no concrete failing input
            # was exhibited: the property is no longer shown to hold (brief: still a violation)
            self.violation(
                "proof obligation or correspondence no longer checks: " + "; ".join(broken),
                {"broken": broken,
                 "details": {o["name"]: o["detail"] for o in self.obligations if not o["ok"]}},
                found_input=False,
            )
        wall = time.time() - self.t0
        n_obl = len(self.obligations)
        n_ok = sum(1 for o in self.obligations if o["ok"])
        cov: Dict[str, Any] = {
            "obligations": n_obl,
            "discharged": n_ok,
            "checker_cmd": self.checker_cmd or "make -f Makefile.coq (coqc 8.16.1, full .vo) + Print Assumptions",
            "trusted_base": self.trusted_base,
            "evaluations": self.evaluations,
            "distinct_nontrivial": len(self.case_hashes),
            "rule": self.rule,
            "samples": self.samples[:6] or ["(no correspondence cases in this run)"],
            "obligation_list": [{k: o[k] for k in ("name", "ok", "kind")} for o in self.obligations],
        }
        cov.update(self.extra)
        ev = {
            "property_id": self.prop,
            "tier": self.tier if self.tier in ("quick", "thorough") else "quick",
            "seed": self.seed,
            "level": self.level,
            "coverage": cov,
            "assumptions": self.assumptions,
            "wall_s": round(wall, 2),
            "violations": len(self.violations),
            "known_findings_reported": self.known_lines,
            "notes": self.notes,
        }
        (VERIF / "evidence").mkdir(exist_ok=True)
        if str(REPO) != "/repo":
            # run against a private (e.g. mutated) copy: never overwrite the evidence of the real tree
            (BUILD / "evidence_alt").mkdir(parents=True, exist_ok=True)
            (BUILD / "evidence_alt" / f"{self.prop}.json").write_text(json.dumps(ev, indent=1, default=str))
        elif self.tier != "replay":  # a replay must not overwrite the evidence of the last real run
            (VERIF / "evidence" / f"{self.prop}.json").write_text(json.dumps(ev, indent=1, default=str))
        for line in self.known_lines:
            print(line)
        for o in self.obligations:
            if not o["ok"]:
                print(f"[{self.prop}] BROKEN {o['kind']} {o['name']}: {o['detail'][-600:]}")
        for v in self.violations:
            suffix = "" if v["found_input"] else " no-failing-input-found"
            print(f"VIOLATION property={self.prop} replay={v['replay']}{suffix}")
        print(
            f"[{self.prop}] tier={self.tier} obligations={n_ok}/{n_obl} cases={self.evaluations} "
            f"distinct={len(self.case_hashes)} violations={len(self.violations)} wall={wall:.1f}s"
        )
        return 1 if self.violations else 0


def standard_proof_stage(
    ctx: Ctx,
    prop_module: str,
    targets: Sequence[str],
    extra_modules: Sequence[str] = (),
) -> bool:
    """Build the property's .vo files, scan for forbidden tokens, and record one obligation per
    theorem of Properties/<prop_module>.v with its Print Assumptions output.
    Returns True when every obligation is discharged."""
    all_ok = True
    bad = forbidden_scan()
    ctx.obligation("no-admits-axioms-or-disabled-checks", not bad, "\n".join(bad), kind="hygiene")
    all_ok &= not bad
    rc, out = coq_make(list(targets))
    ctx.checker_cmd = "make -f coq/Makefile.coq " + " ".join(targets) + " ; coqc Print Assumptions"
    vfile = COQ / "Properties" / f"{prop_module}.v"
    names = theorems_in(vfile)
    if rc != 0:
        ctx.obligation(f"build:{' '.join(targets)}", False, out, kind="build")
        for n in names:
            ctx.obligation(n, False, "not checked: build failed")
        return False
    ctx.obligation(f"build:{' '.join(targets)}", True, "", kind="build")
    if not names:
        ctx.obligation("has-theorems", False, f"no theorem found in {vfile}")
        return False
    ok, axs, log = print_assumptions(f"Properties.{prop_module}", names, prop_module)
    if not ok:
        for n in names:
            ctx.obligation(n, False, "Print Assumptions failed:\n" + log)
        return False
    used = set()
    for n in names:
        ax = [a for a in axs[n] if not a.startswith(PRIMITIVE_PREFIXES)]
        unknown = [a for a in ax if a not in ALLOWED_AXIOMS]
        used.update(ax)
        ctx.obligation(n, not unknown, "unexpected axioms: " + ", ".join(unknown) if unknown else "")
        all_ok &= not unknown
    ctx.trusted_base.append("Coq 8.16.1 kernel + VM (vm_compute); no native_compute; no extraction")
    ctx.trusted_base.append(
        "axioms under Print Assumptions: " + (", ".join(sorted(used)) if used else "none (closed)")
    )
    return all_ok
