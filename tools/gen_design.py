"""Assemble /verif/DESIGN.md from tools/design_head.md, the property modules, known_findings.json,
seeded/*/result.json and tools/design_tail.md."""
import glob, json, os, subprocess, sys
HERE = os.path.dirname(os.path.dirname(os.path.abspath(__file__)))
head = open(os.path.join(HERE, "tools", "design_head.md")).read()
tail = open(os.path.join(HERE, "tools", "design_tail.md")).read()
table = subprocess.run([sys.executable, os.path.join(HERE, "tools", "gen_design_table.py")],
                       capture_output=True, text=True).stdout
kf = json.load(open(os.path.join(HERE, "known_findings.json")))
frows = ["| id | property | status | finding key | what failed |", "|---|---|---|---|---|"]
for f in kf["findings"]:
    frows.append(f"| {f['id']} | {f['property']} | {f['status']} | `{f['key']}` | "
                 f"{f['what_fails'][:260].replace('|', '/')} |")
srows = ["| seed | target property | what the change needs to manifest | demo (orig/changed) | caught by | how |",
         "|---|---|---|---|---|---|"]
for d in sorted(glob.glob(os.path.join(HERE, "seeded", "*"))):
    rj, mj = os.path.join(d, "result.json"), os.path.join(d, "meta.json")
    if not os.path.exists(rj):
        continue
    r = json.load(open(rj)); m = json.load(open(mj)) if os.path.exists(mj) else {}
    how = []
    for p, c in r["checks"].items():
        kinds = []
        if any("BROKEN" in l for l in c["lines"]): kinds.append("broken obligation/correspondence")
        if any(l.startswith("VIOLATION") and "no-failing-input" not in l for l in c["lines"]): kinds.append("concrete replay")
        if any("no-failing-input" in l for l in c["lines"]): kinds.append("no-failing-input-found")
        if kinds: how.append(f"{p}: " + " + ".join(kinds))
    srows.append(f"| {r['seed']} | {m.get('property', r['props'][0])} | {m.get('needs', 'see NOTES.md')[:300].replace('|','/')} | "
                 f"{r.get('demo_orig', {}).get('rc')}/{r.get('demo_mut', {}).get('rc')} | "
                 f"{', '.join(r['detected_by']) or '**missed**'} | {'; '.join(how)} |")
out = (head + "## 4. Per property: technique, claim, trusted base, theorems\n\n" + table +
       "\n## 5. Findings in /repo (known_findings.json)\n\nEvery fixed entry is one `fix:` commit in /repo "
       "(see `git -C /repo log`); its witness stays in `corpus/` and is replayed on every run. Open entries are "
       "reported as KNOWN-FINDING.\n\n" + "\n".join(frows) +
       "\n\n## 6. Seeded breaking changes (written by independent agents that saw only the property text)\n\n"
       "Each was confirmed (demo passes on the pristine tree and fails with the change; the relevant existing "
       "tests still pass) and evaluated with `tools/seed_eval.py` against a private copy of /repo.\n\n" +
       "\n".join(srows) + "\n\n" + tail)
open(os.path.join(HERE, "DESIGN.md"), "w").write(out)
print("DESIGN.md written,", len(out.splitlines()), "lines")
