"""Write seeded/<id>/meta.json from NOTES.md + result.json (which property, what the change needs, what was run)."""
import glob, json, os, re
HERE = os.path.dirname(os.path.dirname(os.path.abspath(__file__)))
for d in sorted(glob.glob(os.path.join(HERE, "seeded", "*"))):
    rj = os.path.join(d, "result.json")
    if not os.path.exists(rj):
        continue
    r = json.load(open(rj))
    notes = open(os.path.join(d, "NOTES.md")).read() if os.path.exists(os.path.join(d, "NOTES.md")) else ""
    secs = re.split(r"^#+\s*", notes, flags=re.M)
    needs = ""
    for sec in secs:
        head, _, body = sec.partition("\n")
        if re.search(r"needed|trigger|manifest", head, re.I) and body.strip():
            needs = " ".join(body.split())[:700]
            break
    if not needs:
        paras = [p.strip() for p in re.split(r"\n\s*\n", notes) if p.strip()]
        trig = [p for p in paras if re.search(r"trigger|manifest|only when|only if", p, re.I)]
        needs = " ".join((trig[0] if trig else (paras[1] if len(paras) > 1 else "")).split())[:700]
    tests = [l.strip() for l in notes.splitlines() if "pytest" in l or re.search(r"\d+ passed", l)][:8]
    meta = {
        "seed": r["seed"], "property": r["props"][0],
        "written_by": "independent sub-agent given only the property text and a scratch worktree of /repo",
        "needs": needs, "existing_tests_run_by_author": tests,
        "confirmed_by_lead": {
            "demo_on_pristine_copy_rc": r.get("demo_orig", {}).get("rc"),
            "demo_on_changed_copy_rc": r.get("demo_mut", {}).get("rc"),
            "how": "tools/seed_eval.py: rsync copies of /repo under /var/tmp, patch applied with patch -p1, demo.py run "
                   "in both, ./check run with VERIF_REPO=<changed copy>; copies removed afterwards",
        },
        "checks_run": {p: {"exit": c["rc"], "wall_s": c["wall_s"]} for p, c in r["checks"].items()},
        "detected_by": r["detected_by"],
    }
    json.dump(meta, open(os.path.join(d, "meta.json"), "w"), indent=1)
    print(r["seed"], "->", r["detected_by"], "|", needs[:100])
